"""Parent-side driver: spawns workers, reads their event logs, classifies, writes evidence.

A check module (checks/cNN.py) provides

    PROPERTY = 'C13'
    LEVEL = 'exploration'
    RULE = '...how cases are generated and what makes one non-trivial...'
    ASSUMPTIONS = [...]
    REQUIRED_COUNTERS = [...]      # a zero here => inconclusive
    MIN_CASES = {'quick': n, 'thorough': n}
    def run(ctx): ...              # executed inside every worker
    def replay(ctx, case): ...     # executed for --replay

and the worker-side `ctx` (vlib/worker.py) offers case()/viol()/count()/sample().
Verdicts are three-valued: exit 0 held-on-observed, exit 1 VIOLATION, exit 2 INCONCLUSIVE.
"""
import importlib
import json
import os
import shutil
import subprocess
import sys
import tempfile
import time

ROOT = os.path.dirname(os.path.dirname(os.path.abspath(__file__)))
PY = os.environ.get('VERIF_PY', '/venv/bin/python')
DEPS = os.path.join(ROOT, '.deps')


def repo_path():
    return os.environ.get('VERIF_REPO', '/repo')


def out_root():
    """Evidence and replays of the registered commands go under the checkout; self-validation runs against a
    scratch copy (VERIF_REPO set) must not overwrite them."""
    if os.path.realpath(repo_path()) != os.path.realpath('/repo'):
        d = os.environ.get('VERIF_SCRATCH_OUT', os.path.join(tempfile.gettempdir(), 'verif-selfcheck-out'))
        os.makedirs(d, exist_ok=True)
        return d
    return ROOT


def ensure_deps():
    """A restore brings back committed files only: install icontract/deal next to us if absent."""
    marker = os.path.join(DEPS, 'icontract')
    if os.path.isdir(marker):
        return
    subprocess.run(['/bin/sh', os.path.join(ROOT, 'setup.sh')], check=True, stdout=subprocess.DEVNULL)


def worker_env(scratch, hashseed='0'):
    env = dict(os.environ)
    env['PYTHONPATH'] = os.pathsep.join([repo_path(), ROOT, DEPS])
    env['PYTHONDONTWRITEBYTECODE'] = '1'
    env['PYTHONHASHSEED'] = hashseed
    env['PYTHONWARNINGS'] = 'ignore'
    env['HOME'] = scratch
    env['TMPDIR'] = scratch
    env['PYX12_VERIF'] = '1'
    env['VERIF_REPO'] = repo_path()
    env.pop('PYTHONSTARTUP', None)
    return env


def load_known():
    fn = os.path.join(ROOT, 'known_findings.json')
    with open(fn) as fd:
        data = json.load(fd)
    return data['findings']


def _sanitize(key):
    return ''.join(c if c.isalnum() or c in '-_.' else '_' for c in key)[:120]


def main(argv=None):
    import argparse
    ap = argparse.ArgumentParser()
    ap.add_argument('prop')
    ap.add_argument('--tier', default=os.environ.get('VERIF_TIER', 'quick'), choices=['quick', 'thorough'])
    ap.add_argument('--replay', default=None)
    ap.add_argument('--jobs', type=int, default=int(os.environ.get('VERIF_JOBS', '16')))
    args = ap.parse_args(argv)
    prop = args.prop.upper()
    seed = int(os.environ.get('VERIF_SEED', '0') or 0)
    ensure_deps()
    sys.path.insert(0, ROOT)
    mod = importlib.import_module('checks.%s' % prop.lower())
    t0 = time.time()
    scratch = tempfile.mkdtemp(prefix='verif-%s-' % prop)
    try:
        if args.replay:
            return do_replay(mod, prop, args, seed, scratch)
        return do_run(mod, prop, args, seed, scratch, t0)
    finally:
        shutil.rmtree(scratch, ignore_errors=True)


def do_replay(mod, prop, args, seed, scratch):
    with open(args.replay) as fd:
        rep = json.load(fd)
    out = os.path.join(scratch, 'replay.jsonl')
    env = worker_env(scratch, rep.get('hashseed', '0'))
    cmd = [PY, '-m', 'vlib.worker', prop, '0', '1', str(rep.get('seed', seed)), rep.get('tier', args.tier), out,
           '--replay', os.path.abspath(args.replay)]
    p = subprocess.run(cmd, env=env, cwd=ROOT, timeout=3600)
    nv = 0
    if os.path.exists(out):
        for line in open(out):
            r = json.loads(line)
            if r.get('t') == 'viol':
                nv += 1
                print('REPLAYED key=%s what=%s' % (r['key'], r['what']))
                print(json.dumps(r.get('detail'), indent=1, default=str)[:4000])
    print('replay: %d violation record(s) reproduced' % nv)
    return 1 if nv else (0 if p.returncode == 0 else 2)


def do_run(mod, prop, args, seed, scratch, t0):
    tier = args.tier
    nshards = getattr(mod, 'SHARDS', {}).get(tier, args.jobs)
    nshards = max(1, nshards)
    wd_timeout = getattr(mod, 'WATCHDOG_S', {}).get(tier, 1500 if tier == 'quick' else 7200)
    hashseed = getattr(mod, 'HASHSEED', '0')
    procs = []
    running = []
    outs = []
    pending = list(range(nshards))
    env = worker_env(scratch, hashseed)
    inconclusive = []
    deadline = time.time() + wd_timeout
    while pending or running:
        while pending and len(running) < args.jobs:
            i = pending.pop(0)
            out = os.path.join(scratch, 'w%03d.jsonl' % i)
            err = open(os.path.join(scratch, 'w%03d.err' % i), 'w')
            cmd = [PY, '-m', 'vlib.worker', prop, str(i), str(nshards), str(seed), tier, out]
            p = subprocess.Popen(cmd, env=env, cwd=ROOT, stdout=err, stderr=subprocess.STDOUT)
            running.append((i, p, out, err))
            outs.append((i, out))
        time.sleep(0.05)
        still = []
        for (i, p, out, err) in running:
            rc = p.poll()
            if rc is None:
                if time.time() > deadline:
                    p.kill()
                    p.wait()
                    inconclusive.append('worker %d hit the %ds wall-clock watchdog' % (i, wd_timeout))
                    err.close()
                else:
                    still.append((i, p, out, err))
            else:
                err.close()
                if rc != 0:
                    tail = open(os.path.join(scratch, 'w%03d.err' % i)).read()[-400:]
                    inconclusive.append('worker %d exited %d: %s' % (i, rc, tail))
        running = still

    # ---- offline pass over the event logs
    evaluations = 0
    nt_disjoint = 0
    sigs = set()
    samples = []
    counters = {}
    viols = {}
    done = 0
    sets = {}
    for (i, out) in sorted(outs):
        if not os.path.exists(out):
            continue
        for line in open(out):
            try:
                r = json.loads(line)
            except ValueError:
                inconclusive.append('worker %d log truncated' % i)
                continue
            t = r.get('t')
            if t == 'case':
                evaluations += r.get('n', 1)
                nt_disjoint += r.get('nt', 0)
                for s in r.get('sigs', ()):
                    sigs.add(s if isinstance(s, str) else json.dumps(s))
                if 'sample' in r and len(samples) < getattr(mod, 'MAX_SAMPLES', 6):
                    samples.append(r['sample'])
            elif t == 'viol':
                viols.setdefault(r['key'], []).append(r)
            elif t == 'stat':
                for k, v in r['counters'].items():
                    counters[k] = counters.get(k, 0) + v
                for k, v in r.get('sets', {}).items():
                    sets.setdefault(k, set()).update(v)
            elif t == 'done':
                done += 1
    if done != nshards:
        inconclusive.append('%d of %d workers finished' % (done, nshards))

    known = [k for k in load_known() if k['property'] == prop]
    known_open = {k['key']: k for k in known if k.get('status') == 'known'}
    new_keys = []
    known_hit = {}
    for key, recs in sorted(viols.items()):
        if key in known_open:
            known_hit[key] = recs
        else:
            new_keys.append(key)

    for req in getattr(mod, 'REQUIRED_COUNTERS', []):
        if counters.get(req, 0) <= 0:
            inconclusive.append('required counter %s is zero (monitor/mechanism never reached)' % req)
    floor = getattr(mod, 'MIN_CASES', {}).get(tier, 1)
    if evaluations < floor:
        inconclusive.append('only %d cases decided, floor for tier %s is %d' % (evaluations, tier, floor))
    if (len(sigs) + nt_disjoint) < 2:
        inconclusive.append('fewer than 2 distinct non-trivial cases observed')

    # replays for new violations
    replay_paths = {}
    if os.path.isdir(os.path.join(out_root(), 'replays', prop)):
        shutil.rmtree(os.path.join(out_root(), 'replays', prop), ignore_errors=True)   # witnesses of an earlier run would only mislead
    if new_keys:
        rdir = os.path.join(out_root(), 'replays', prop)
        os.makedirs(rdir, exist_ok=True)
        for key in new_keys:
            r = viols[key][0]
            fn = os.path.join(rdir, _sanitize(key) + '.json')
            with open(fn, 'w') as fd:
                json.dump({'property': prop, 'key': key, 'what': r['what'], 'tier': tier, 'seed': seed,
                           'hashseed': hashseed, 'case': r.get('case'), 'detail': r.get('detail'),
                           'occurrences': len(viols[key])}, fd, indent=1, default=str)
            replay_paths[key] = fn

    wall = time.time() - t0
    cov = {
        'evaluations': evaluations,
        'distinct_nontrivial': (len(sigs) + nt_disjoint),
        'rule': mod.RULE,
        'samples': samples[:getattr(mod, 'MAX_SAMPLES', 6)],
        'counters': dict(sorted(counters.items())),
        'workers': nshards,
        'known_findings_hit': {k: {'occurrences': len(v), 'what': known_open[k]['what'],
                                   'sample_case': v[0].get('case')} for k, v in known_hit.items()},
        'new_violation_keys': {k: len(viols[k]) for k in new_keys},
        'inconclusive_reasons': inconclusive,
    }
    for k, v in sets.items():
        cov['distinct_' + k] = len(v)
        if len(v) <= 60:
            cov['set_' + k] = sorted(v)
    if getattr(mod, 'EXHAUSTIVE', {}).get(tier):
        cov['exhaustive'] = True
    extra = getattr(mod, 'coverage_extra', None)
    if extra:
        cov.update(extra(counters, sets, tier))
    ev = {
        'property_id': prop, 'tier': tier, 'seed': seed, 'level': mod.LEVEL, 'coverage': cov,
        'assumptions': list(getattr(mod, 'ASSUMPTIONS', [])), 'wall_s': round(wall, 2),
        'violations': len(new_keys),
    }
    edir = os.path.join(out_root(), 'evidence')
    os.makedirs(edir, exist_ok=True)
    if evaluations >= 1 and (len(sigs) + nt_disjoint) >= 2:
        with open(os.path.join(edir, prop + '.json'), 'w') as fd:
            json.dump(ev, fd, indent=1, default=str)
            fd.write('\n')

    print('%s tier=%s seed=%d cases=%d distinct_nontrivial=%d wall=%.1fs' % (prop, tier, seed, evaluations, (len(sigs) + nt_disjoint), wall))
    for k in sorted(counters):
        if not k.startswith('_'):
            print('  %-48s %d' % (k, counters[k]))
    for key, recs in sorted(known_hit.items()):
        print('KNOWN-FINDING: property=%s %s [key=%s, %d occurrence(s)]' % (prop, known_open[key]['what'], key, len(recs)))
    for key in new_keys:
        print('  new violation key=%s occurrences=%d what=%s' % (key, len(viols[key]), viols[key][0]['what']))
        print('VIOLATION property=%s replay=%s' % (prop, replay_paths[key]))
    if new_keys:
        return 1
    if inconclusive:
        for r in inconclusive:
            print('INCONCLUSIVE property=%s reason=%s' % (prop, r.replace('\n', ' | ')))
        return 2
    print('HELD-ON-OBSERVED property=%s' % prop)
    return 0


if __name__ == '__main__':
    sys.exit(main())
