"""Single-fault catalogue (DESIGN 4.2).  No pyx12 import.

inject(rng, doc, kind=None) -> Fault or None
  Fault.doc      : new Doc (deep copy with exactly one violation)
  Fault.kind, .set_index (which ST in document order), .seg_pos (position in set, ST=1), .seg_id,
  .ele_pos, .sub_pos, .codes (acceptable standard codes), .level ('ele' | 'seg'), .value (echoed value or None),
  .alters_matching (bool), .positions (acceptable element positions, for syntax faults)
"""
import copy

from vlib import gen_doc, ref_values

ELE_KINDS = ['too_long', 'too_short', 'bad_code', 'bad_char', 'bad_date', 'bad_time', 'bad_qualified_datetime', 'bad_pattern', 'missing_required', 'notused_filled',
             'too_many_elements', 'too_many_components', 'syntax']
SEG_KINDS = ['unknown_segment', 'out_of_place', 'missing_segment', 'max_use', 'loop_repeat']
ALL_KINDS = ELE_KINDS + SEG_KINDS
RARE_KINDS = ['bad_pattern']      # applicable in two maps only (elements with a <regex>): driven by directed bases, not required of every run's random part
ENVELOPE = ('ISA', 'GS', 'ST', 'SE', 'GE', 'IEA')


class Fault(object):
    def __init__(self, **kw):
        self.alters_matching = False
        self.seg_pos_max = None
        self.positions = None
        self.sub_pos = None
        self.value = None
        self.note = None
        self.__dict__.update(kw)

    def describe(self):
        d = dict(self.__dict__)
        d.pop('doc', None)
        return d


def clone(doc):
    d = gen_doc.Doc()
    d.entry, d.mapfile, d.charset, d.meta, d.shadowed = doc.entry, doc.mapfile, doc.charset, dict(doc.meta), doc.shadowed
    d.recs = [gen_doc.Rec(r.node, copy.deepcopy(r.vals), list(r.chain)) for r in doc.recs]
    return d


def set_bounds(doc):
    """[(start index of ST, index of SE)]"""
    out = []
    start = None
    for i, r in enumerate(doc.recs):
        if r.node.id == 'ST':
            start = i
        elif r.node.id == 'SE' and start is not None:
            out.append((start, i))
            start = None
    return out


def locate(doc, i):
    """(set ordinal in document order, position in set with ST=1)"""
    for k, (a, b) in enumerate(set_bounds(doc)):
        if a <= i <= b:
            return k, i - a + 1
    return None, None


def fix_se(doc):
    for (a, b) in set_bounds(doc):
        doc.recs[b].vals[0] = str(b - a + 1)


def match_positions(segnode):
    return set(p for (p, codes) in gen_doc.quals_of(segnode))


def syntax_positions(segnode):
    s = set()
    for note in segnode.syntax:
        for k in range(1, len(note) - 1, 2):
            s.add(int(note[k:k + 2]))
    return s


def is_body(r):
    return r.node.id not in ENVELOPE and not isinstance(r.node, _FakeNode)


def prev_real(doc, i):
    j = i - 1
    while j > 0 and isinstance(doc.recs[j].node, _FakeNode):
        j -= 1
    return doc.recs[j]


def element_sites(doc, want):
    """yield (rec index, element node, ele_pos, sub_pos, current value) for body segments"""
    for i, r in enumerate(doc.recs):
        if not is_body(r):
            continue
        for k in r.node.children:
            cur = r.vals[k.seq - 1] if k.seq <= len(r.vals) else ''
            if k.kind == 'ele':
                yield (i, k, k.seq, None, cur)
            else:
                for s in k.children:
                    cv = ''
                    if isinstance(cur, list) and s.seq <= len(cur):
                        cv = cur[s.seq - 1]
                    yield (i, s, k.seq, s.seq, cv)


def set_value(rec, ele_pos, sub_pos, value):
    while len(rec.vals) < ele_pos:
        rec.vals.append('')
    if sub_pos is None:
        rec.vals[ele_pos - 1] = value
    else:
        cur = rec.vals[ele_pos - 1]
        if not isinstance(cur, list):
            cur = [cur] if cur != '' else []
        while len(cur) < sub_pos:
            cur.append('')
        cur[sub_pos - 1] = value
        rec.vals[ele_pos - 1] = cur


def _alpha_for(dtype):
    if dtype in ('R',) or dtype[0] == 'N' or dtype in ('DT', 'TM'):
        return '7'
    return 'K'


def inject(rng, doc, kind=None, tries=40):
    kinds = [kind] if kind else list(ALL_KINDS)
    for _ in range(tries):
        k = rng.choice(kinds)
        f = _inject(rng, doc, k)
        if f is not None:
            return f
    return None


def _sites(rng, doc, pred):
    sites = [s for s in element_sites(doc, None) if pred(*s)]
    if not sites:
        return None
    return rng.choice(sites)


def _inject(rng, doc, kind):
    DE = gen_doc.DE()
    fn = getattr(_K, kind)
    return fn(rng, doc)


def _mk(doc2, kind, i, ele_pos, sub_pos, codes, value, **kw):
    si, pos = locate(doc2, i)
    if si is None:
        return None
    return Fault(doc=doc2, kind=kind, level='ele', set_index=si, seg_pos=pos, seg_id=doc2.recs[i].node.id, ele_pos=ele_pos, sub_pos=sub_pos,
                 codes=codes, value=value, rec_index=i, node_path=doc2.recs[i].node.path(), **kw)


def _present(cur):
    return cur not in ('', None)


def _plain_site(i, node, ep, sp, cur, doc):
    """an element whose value can be changed without touching matching, syntax notes or special counters"""
    seg = doc.recs[i].node
    if (ep, sp) in match_positions(seg) or (sp == 1 and (ep, None) in match_positions(seg)):
        return False
    if seg.id in ('HL', 'LX') and ep <= 3:
        return False
    if seg.id == 'BHT' and ep == 2:
        return False
    if node.data_ele in ('1250', '1251'):
        return False
    return True


class _K(object):
    @staticmethod
    def too_long(rng, doc):
        def pred(i, node, ep, sp, cur):
            dt, mn, mx = gen_doc.dtype_of(node)
            return _present(cur) and node.usage != 'N' and _plain_site(i, node, ep, sp, cur, doc) and not node.codes and not node.external and dt in ('AN', 'ID', 'R') or \
                (_present(cur) and node.usage != 'N' and _plain_site(i, node, ep, sp, cur, doc) and not node.codes and not node.external and dt[0] == 'N')
        s = _sites(rng, doc, pred)
        if not s:
            return None
        i, node, ep, sp, cur = s
        dt, mn, mx = gen_doc.dtype_of(node)
        if node.regex:
            return None
        v = _alpha_for(dt) * (mx + 1)
        d = clone(doc)
        set_value(d.recs[i], ep, sp, v)
        return _mk(d, 'too_long', i, ep, sp, ['5'], v)

    @staticmethod
    def too_short(rng, doc):
        def pred(i, node, ep, sp, cur):
            dt, mn, mx = gen_doc.dtype_of(node)
            return _present(cur) and mn > 1 and node.usage != 'N' and _plain_site(i, node, ep, sp, cur, doc) and not node.codes and not node.external and \
                (dt in ('AN', 'ID', 'R') or dt[0] == 'N') and not node.regex
        cand = [x for x in element_sites(doc, None) if pred(*x)]
        if not cand:
            return None
        numeric = [x for x in cand if gen_doc.dtype_of(x[1])[0] == 'R' or gen_doc.dtype_of(x[1])[0][0] == 'N']
        s = rng.choice(numeric) if (numeric and rng.random() < 0.7) else rng.choice(cand)     # (numeric elements with a minimum above 1 are rare)
        i, node, ep, sp, cur = s
        dt, mn, mx = gen_doc.dtype_of(node)
        v = _alpha_for(dt) * (mn - 1)
        note = None
        if (dt == 'R' or dt[0] == 'N') and rng.random() < 0.6:
            # the length of a numeric value is its number of digits: sign and decimal point do not count towards the minimum
            opts = ['-' + '7' * (mn - 1)]
            if dt == 'R' and mn >= 3:
                opts += ['7' * (mn - 2) + '.7', '-' + '7' * (mn - 3) + '.7' if mn >= 4 else '7.' + '7' * (mn - 2)]
            v = rng.choice(opts)
            note = 'numeric:characters-reach-the-minimum-digits-do-not'
        d = clone(doc)
        set_value(d.recs[i], ep, sp, v)
        return _mk(d, 'too_short', i, ep, sp, ['4'], v, note=note)

    @staticmethod
    def bad_code(rng, doc):
        CODES = gen_doc.CODES()

        def pred(i, node, ep, sp, cur):
            dt, mn, mx = gen_doc.dtype_of(node)
            return _present(cur) and (node.codes or node.external) and node.usage != 'N' and _plain_site(i, node, ep, sp, cur, doc) and dt == 'ID' \
                and (not node.external or node.external in CODES)
        all_sites = [x for x in element_sites(doc, None) if pred(*x)]
        # a code list on an element that is not of type ID (the diagnosis code pointers SV107-n are N0 with codes 1..8 / 1..12): a well-formed
        # value of the element's own type and length that the list does not hold
        typed = [x for x in element_sites(doc, None) if _present(x[4]) and x[1].codes and not x[1].external and x[1].usage != 'N' and _plain_site(x[0], x[1], x[2], x[3], x[4], doc)
                 and gen_doc.dtype_of(x[1])[0] != 'ID']
        if typed and rng.random() < (0.5 if all_sites else 1.0):
            i, node, ep, sp, cur = rng.choice(typed)
            dt, mn, mx = gen_doc.dtype_of(node)
            pool = ['0', '9', '13', '99', '7', '12', '00', '10'] if (dt == 'R' or dt[0] == 'N') else ['ZZ', 'Z', 'QQQ', 'ZZZZ', 'Q9', 'X7X']
            pool = [v for v in pool if mn <= len(v) <= mx and v not in node.codes]
            if pool:
                v = rng.choice(pool)
                d = clone(doc)
                set_value(d.recs[i], ep, sp, v)
                return _mk(d, 'bad_code', i, ep, sp, ['7'], v, note='code-list-on-non-ID-element')
        # the first element of a segment, situational, with a code list: it does NOT decide which node the segment belongs to (only a required
        # one does), so a value outside its list is an element finding like any other
        first_sit = [x for x in all_sites if x[2] == 1 and x[3] is None and x[1].usage == 'S' and x[1].codes and not x[1].external]
        if first_sit and rng.random() < 0.5:
            i, node, ep, sp, cur = rng.choice(first_sit)
            dt, mn, mx = gen_doc.dtype_of(node)
            pool = [v for v in ['ZZ', 'Z', 'QQQ', 'ZZZZ', 'Q9', 'X7X'] if mn <= len(v) <= mx and v not in node.codes]
            if pool:
                d = clone(doc)
                set_value(d.recs[i], ep, sp, pool[0])
                return _mk(d, 'bad_code', i, ep, sp, ['7'], pool[0], note='situational-first-element-with-code-list')
        if not all_sites:
            return None

        def earlier_values(i, node, external_only):
            dt, mn, mx = gen_doc.dtype_of(node)
            own = set(node.codes) | set(CODES.get(node.external, []) if node.external else [])
            out = []
            for (j, n2, e2, s2, c2) in element_sites(doc, None):
                if j >= i:
                    break
                if _present(c2) and (n2.codes or n2.external) and mn <= len(c2) <= mx and c2 not in own and c2.isalnum() and c2.isupper():
                    if not external_only or (n2.external and n2.external != node.external and c2 in CODES.get(n2.external, ())):
                        out.append(c2)
            return out
        cands = []
        # directed half: an element bound to an external code set, given a value that an earlier element of the same document
        # legitimately carried as a member of ANOTHER external code set (a lookup cache keyed too coarsely accepts it)
        cross = [x for x in all_sites if x[1].external and earlier_values(x[0], x[1], True)] if rng.random() < 0.5 else []
        if cross:
            i, node, ep, sp, cur = rng.choice(cross)
            cands.append(rng.choice(earlier_values(i, node, True)))
            note = 'member-of-another-external-set-seen-earlier'
        else:
            i, node, ep, sp, cur = rng.choice(all_sites)
            note = None
        dt, mn, mx = gen_doc.dtype_of(node)
        own = set(node.codes) | set(CODES.get(node.external, []) if node.external else [])
        # "valid elsewhere, invalid here": values that occur earlier in the document, members of other code lists / code sets
        seen_before = earlier_values(i, node, False)
        if not cands and seen_before and rng.random() < 0.6:
            cands.append(rng.choice(seen_before))
        cands += ['ZZ', 'Z', 'QQQ', 'ZZZZ', 'Q9', 'X7X', 'ZQZQZ', 'Q', 'ZZZZZZ']
        for cand in cands:
            if mn <= len(cand) <= mx and cand not in own:
                v = cand
                break
        else:
            return None
        d = clone(doc)
        set_value(d.recs[i], ep, sp, v)
        return _mk(d, 'bad_code', i, ep, sp, ['7'], v, note=note if (cands and v == cands[0]) else None, external=node.external)

    @staticmethod
    def bad_char(rng, doc):
        def pred(i, node, ep, sp, cur):
            dt, mn, mx = gen_doc.dtype_of(node)
            return _present(cur) and node.usage != 'N' and _plain_site(i, node, ep, sp, cur, doc) and not node.codes and not node.external and \
                (dt == 'R' or dt[0] == 'N' or dt == 'AN') and mx >= 2 and not node.regex
        s = _sites(rng, doc, pred)
        if not s:
            return None
        i, node, ep, sp, cur = s
        dt, mn, mx = gen_doc.dtype_of(node)
        n = max(mn, 2)
        note = None
        if dt == 'AN':
            # a control character, or a character that only another character set (extended / 5010 extended) would allow
            outside = [c for c in 'aq%@_#`^' if c not in ref_values.charset_of(doc.charset, doc.entry['icvn']) and c not in ('~*:^' if doc.entry['icvn'] == '00501' else '~*:')]
            if outside and rng.random() < 0.6:
                c = rng.choice(outside)
                v = 'A' * (n - 1) + c
                value = v
                note = 'outside-charset:%s:%s' % (doc.charset, doc.entry['icvn'])
            else:
                v = 'A' * (n - 1) + '\x07'
                value = '<BEL>'
        else:
            v = '1' * (n - 1) + 'X'
            value = v
        d = clone(doc)
        set_value(d.recs[i], ep, sp, v)
        return _mk(d, 'bad_char', i, ep, sp, ['6'], value, raw_value=v, note=note)

    @staticmethod
    def bad_date(rng, doc):
        def pred(i, node, ep, sp, cur):
            dt, mn, mx = gen_doc.dtype_of(node)
            return _present(cur) and dt == 'DT' and mn <= 8 <= mx and node.usage != 'N' and _plain_site(i, node, ep, sp, cur, doc)
        s = _sites(rng, doc, pred)
        if not s:
            return None
        i, node, ep, sp, cur = s
        v = rng.choice(['20001301', '20010229', '20000431', '17991231', '20000100'])
        d = clone(doc)
        set_value(d.recs[i], ep, sp, v)
        return _mk(d, 'bad_date', i, ep, sp, ['8'], v)

    @staticmethod
    def bad_time(rng, doc):
        def pred(i, node, ep, sp, cur):
            dt, mn, mx = gen_doc.dtype_of(node)
            return _present(cur) and dt == 'TM' and mn <= 4 <= mx and node.usage != 'N' and _plain_site(i, node, ep, sp, cur, doc)
        s = _sites(rng, doc, pred)
        if not s:
            return None
        i, node, ep, sp, cur = s
        v = rng.choice(['2400', '1260', '9999'])
        d = clone(doc)
        set_value(d.recs[i], ep, sp, v)
        return _mk(d, 'bad_time', i, ep, sp, ['9'], v)

    @staticmethod
    def bad_pattern(rng, doc):
        """an element that carries a <regex> (nine-digit identifiers in the 5010 837 maps) with a value of legal length and characters that the pattern refuses"""
        import re as _re

        def pred(i, node, ep, sp, cur):
            return _present(cur) and node.regex and node.usage != 'N' and _plain_site(i, node, ep, sp, cur, doc)
        s_ = _sites(rng, doc, pred)
        if not s_:
            return None
        i, node, ep, sp, cur = s_
        dt, mn, mx = gen_doc.dtype_of(node)
        pool = [v for v in ['12345678A', '1234', '123-45-6789', 'ABCDEFGHI', '12345 789', '0'] if mn <= len(v) <= mx and not _re.search(node.regex, v, _re.S)
                and v not in (node.codes or ())]
        if not pool:
            return None
        v = rng.choice(pool)
        d = clone(doc)
        set_value(d.recs[i], ep, sp, v)
        return _mk(d, 'bad_pattern', i, ep, sp, ['7'], v)

    @staticmethod
    def bad_qualified_datetime(rng, doc):
        """DTP03, whose format DTP02 announces (D8, RD8, DT = date + HHMM, TM): an impossible date or time of day in that format, a range
        without hyphen, a date-time whose only fault is the time part (in and outside February)"""
        sites = [i for i, r in enumerate(doc.recs) if is_body(r) and r.node.id == 'DTP' and len(r.vals) >= 3 and r.vals[1] in ('D8', 'RD8', 'DT', 'TM')
                 and isinstance(r.vals[2], str) and r.vals[2] != '' and len(r.node.children) >= 3 and r.node.children[2].usage != 'N']
        if not sites:
            return None
        # the rarer formats first: every format that occurs in the document is equally likely
        # (a DTP whose DTP02 code list also allows another format may legitimately be switched to it: still one fault)
        byq = {}
        for i in sites:
            allowed = set(doc.recs[i].node.children[1].codes or ()) & set(('D8', 'RD8', 'DT', 'TM'))
            for q in allowed | set([doc.recs[i].vals[1]]):
                byq.setdefault(q, []).append(i)
        rare = [x for x in ('DT', 'TM') if x in byq]
        q = rng.choice(rare) if (rare and rng.random() < 0.6) else rng.choice(sorted(byq))
        i = rng.choice(byq[q])
        v, codes = {'D8': (['20001301', '20010229', '20000431', '2000010'], ['8']),
                    'RD8': (['20000101-20001301', '20010229-20010301', '20000101', '20000101-', '2000010120000102'], ['8']),
                    'DT': (['200312132561', '200307049960', '200311302400', '200608150075', '200402292460', '200013011200'], ['8', '9']),
                    'TM': (['2561', '0860', '9999', '24'], ['9'])}[q]
        v = rng.choice(v)
        note = 'format:' + q
        # the node lists another format as well: a value that is well formed in THAT format is still wrong under the qualifier given
        listed = set(doc.recs[i].node.children[1].codes or ())
        other = {'D8': [('RD8', '20200101-20200105'), ('DT', '202001011230')], 'RD8': [('D8', '20200101')]}.get(q, [])
        other = [val for (fmt, val) in other if fmt in listed]
        if other and rng.random() < 0.6:
            v = rng.choice(other)
            codes = ['8']
            note += ':well-formed-in-another-listed-format'
        d = clone(doc)
        d.recs[i].vals[1] = q
        d.recs[i].vals[2] = v
        return _mk(d, 'bad_qualified_datetime', i, 3, None, codes, v, note=note)

    @staticmethod
    def missing_required(rng, doc):
        def pred(i, node, ep, sp, cur):
            seg = doc.recs[i].node
            if sp is not None:
                comp = seg.children[ep - 1]
                # the code special-cases a required first component of a non-required composite (DESIGN 7): skip, C15 covers it
                if sp == 1 and comp.usage != 'R':
                    return False
                # blanking the only present component empties the composite: different fault
                curv = doc.recs[i].vals[ep - 1] if ep <= len(doc.recs[i].vals) else ''
                if not isinstance(curv, list) or sum(1 for x in curv if x != '') < 2:
                    return False
            vals = doc.recs[i].vals
            others = sum(1 for q, v in enumerate(vals, 1) if q != ep and (any(x != '' for x in v) if isinstance(v, list) else v != ''))
            if others == 0:
                return False        # blanking the only element empties the segment: a different fault
            return _present(cur) and node.usage == 'R' and _plain_site(i, node, ep, sp, cur, doc) and ep not in syntax_positions(seg)
        # a whole required composite (the implementation reports it with code 2, the standard would say 1: either), preferably
        # the last thing the segment carries, so that the segment simply ends earlier
        whole = []
        for i, r in enumerate(doc.recs):
            if not is_body(r):
                continue
            for k in r.node.children:
                if k.kind != 'comp' or k.usage != 'R' or k.seq > len(r.vals) or k.seq in syntax_positions(r.node):
                    continue
                v = r.vals[k.seq - 1]
                if not (any(x != '' for x in v) if isinstance(v, list) else v != ''):
                    continue
                others = [q for q, w in enumerate(r.vals, 1) if q != k.seq and (any(x != '' for x in w) if isinstance(w, list) else w != '')]
                if not others or not all(_plain_site(i, s2, k.seq, s2.seq, (v[s2.seq - 1] if isinstance(v, list) and s2.seq <= len(v) else (v if s2.seq == 1 else '')), doc)
                                         for s2 in k.children if s2.usage != 'N'):
                    continue
                whole.append((i, k, max(others) < k.seq))
        tail = [w for w in whole if w[2]]
        if whole and rng.random() < (0.75 if tail else 0.3):
            i, k, is_tail = rng.choice(tail) if (tail and rng.random() < 0.8) else rng.choice(whole)
            d = clone(doc)
            d.recs[i].vals[k.seq - 1] = ''
            while d.recs[i].vals and d.recs[i].vals[-1] in ('', [], ['']):
                d.recs[i].vals.pop()
            return _mk(d, 'missing_required', i, k.seq, None, ['1', '2'], None, note='whole-composite' + (':at-the-tail' if is_tail else ''))
        s = _sites(rng, doc, pred)
        if not s:
            return None
        i, node, ep, sp, cur = s
        d = clone(doc)
        set_value(d.recs[i], ep, sp, '')
        return _mk(d, 'missing_required', i, ep, sp, ['1'], None)

    @staticmethod
    def notused_filled(rng, doc):
        def pred(i, node, ep, sp, cur):
            seg = doc.recs[i].node
            if sp is not None and seg.children[ep - 1].usage == 'N':
                return False
            if sp is not None:
                curv = doc.recs[i].vals[ep - 1] if ep <= len(doc.recs[i].vals) else ''
                if not isinstance(curv, list) or not any(x != '' for x in curv):
                    return False      # only inside a composite that is present anyway
            return (not _present(cur)) and node.usage == 'N' and ep not in syntax_positions(seg) and _plain_site(i, node, ep, sp, cur, doc)
        s = _sites(rng, doc, pred)
        if not s:
            return None
        i, node, ep, sp, cur = s
        dt, mn, mx = gen_doc.dtype_of(node)
        v = _alpha_for(dt) * max(mn, 1)
        d = clone(doc)
        set_value(d.recs[i], ep, sp, v)
        return _mk(d, 'notused_filled', i, ep, sp, ['10'], None)

    @staticmethod
    def too_many_elements(rng, doc):
        cands = [i for i, r in enumerate(doc.recs) if is_body(r) and r.node.children]
        if not cands:
            return None
        i = rng.choice(cands)
        d = clone(doc)
        r = d.recs[i]
        n = len(r.node.children)
        while len(r.vals) < n:
            r.vals.append('')
        r.vals.append('X')
        return _mk(d, 'too_many_elements', i, n + 1, None, ['3'], 'X')

    @staticmethod
    def too_many_components(rng, doc):
        cands = []
        for i, r in enumerate(doc.recs):
            if not is_body(r):
                continue
            for k in r.node.children:
                if k.kind == 'comp' and k.usage != 'N' and k.seq <= len(r.vals) and isinstance(r.vals[k.seq - 1], list) and any(x != '' for x in r.vals[k.seq - 1]):
                    cands.append((i, k))
        if not cands:
            return None
        i, k = rng.choice(cands)
        d = clone(doc)
        r = d.recs[i]
        v = r.vals[k.seq - 1]
        while len(v) < len(k.children):
            v.append('')
        v.append('X')
        return _mk(d, 'too_many_components', i, k.seq, None, ['3'], None)

    @staticmethod
    def syntax(rng, doc, want=None):
        cands = [i for i, r in enumerate(doc.recs) if is_body(r) and r.node.syntax]
        rng.shuffle(cands)
        found = []      # (tag, i, p, v, note, idx): every single edit that violates exactly one note of its segment
        for i in cands[:20]:
            r = doc.recs[i]
            seg = r.node
            for note in seg.syntax:
                t = note[0]
                idx = [int(note[k:k + 2]) for k in range(1, len(note) - 1, 2)]

                def present(p, vals=None):
                    vals = r.vals if vals is None else vals
                    if p > len(vals):
                        return False
                    v = vals[p - 1]
                    return any(x != '' for x in v) if isinstance(v, list) else v != ''
                # candidate single edits: blank a present mentioned element, or fill an absent one
                edits = []
                for p in idx:
                    node = seg.children[p - 1] if p <= len(seg.children) else None
                    if node is None or node.kind != 'ele':
                        continue
                    if (p, None) in match_positions(seg) or node.data_ele in ('1250', '1251') or (seg.id in ('HL', 'LX') and p <= 3):
                        continue
                    if present(p) and node.usage == 'S':
                        edits.append((p, ''))
                    elif not present(p) and node.usage == 'S' and not node.codes and not node.external and not node.regex:
                        dt, mn, mx = gen_doc.dtype_of(node)
                        if dt in ('AN', 'ID') or dt[0] == 'N' or dt == 'R':
                            edits.append((p, _alpha_for(dt) * max(mn, 1)))
                for p, v in edits:
                    nv = copy.deepcopy(r.vals)
                    while len(nv) < p:
                        nv.append('')
                    nv[p - 1] = v
                    # exactly this note (and no other note of the segment) must be violated afterwards
                    viol = [n2 for n2 in seg.syntax if not gen_doc.syn_ok(n2, lambda q: present(q, nv))]
                    if viol == [note]:
                        # 'short': every mentioned element that is absent lies beyond the last element the segment carries (nothing but the
                        # end of the segment says so); 'gaps': at least one of them is an empty element inside the segment
                        carried = max([q for q in range(1, len(nv) + 1) if present(q, nv)] or [0])
                        absent = [q for q in idx if not present(q, nv)]
                        tag = '%s:%s' % (t, 'short' if absent and all(q > carried for q in absent) else 'gaps')
                        found.append((tag, i, p, v, note, idx))
        if not found:
            return None
        tags = sorted(set(f[0] for f in found))
        if want is not None and want not in tags:
            return None
        want = want or rng.choice(tags)         # by shape first, so that rare shapes are not drowned by the common ones
        tag, i, p, v, note, idx = rng.choice([f for f in found if f[0] == want])
        d = clone(doc)
        set_value(d.recs[i], p, None, v)
        return _mk(d, 'syntax', i, idx[0], None, ['10'] if note[0] == 'E' else ['2'], None, positions=idx, note='%s shape:%s' % (note, tag))

    # ---------------- segment level
    @staticmethod
    def unknown_segment(rng, doc):
        bounds = set_bounds(doc)
        if not bounds:
            return None
        a, b = rng.choice(bounds)
        if b - a < 2:
            return None
        i = rng.randint(a + 1, b)      # insert before index i (after ST, at most right before SE)
        d = clone(doc)
        fake = gen_doc.Rec(_FakeNode('ZZZ'), ['X', 'Y'], list(d.recs[i - 1].chain))
        d.recs.insert(i, fake)
        fix_se(d)
        si, pos = locate(d, i)
        return Fault(doc=d, kind='unknown_segment', level='seg', set_index=si, seg_pos=pos, seg_id='ZZZ', ele_pos=None, codes=['1', '2'], rec_index=i,
                     node_path=None, alters_matching=False)

    @staticmethod
    def out_of_place(rng, doc):
        """move a segment that exists only deep in the detail to right after ST's successor (header area)"""
        bounds = set_bounds(doc)
        if not bounds:
            return None
        a, b = rng.choice(bounds)
        if b - a < 6:
            return None
        # pick a segment from the last third whose id occurs nowhere in the map outside its own loop subtree start...
        j = rng.randint(a + (b - a) * 2 // 3, b - 1)
        r = doc.recs[j]
        if not is_body(r) or r.node.id in ('HL', 'LX', 'CLM', 'BHT'):
            return None
        # only if no node with this id is reachable from the insertion point (otherwise it would simply match there)
        i = a + 2
        prev = prev_real(doc, i)
        if gen_doc.first_match(prev.node, r.node.id, r.vals) is not None:
            return None
        d = clone(doc)
        moved = gen_doc.Rec(r.node, copy.deepcopy(r.vals), list(prev.chain))
        d.recs.insert(i, moved)
        fix_se(d)
        si, pos = locate(d, i)
        return Fault(doc=d, kind='out_of_place', level='seg', set_index=si, seg_pos=pos, seg_id=r.node.id, ele_pos=None, codes=['1', '2'], rec_index=i,
                     node_path=None, alters_matching=False)

    @staticmethod
    def missing_segment(rng, doc):
        cands = []
        for i, r in enumerate(doc.recs):
            n = r.node
            if not is_body(r) or n.usage != 'R' or n.id in ('HL', 'LX', 'BHT'):
                continue
            if n.parent.kind == 'loop' and n.parent.first_seg() is n:
                continue            # deleting a loop's first segment changes how the rest is matched
            # the only instance of that node inside its loop instance
            same = [k for k, q in enumerate(doc.recs) if q.node is n and q.chain == r.chain]
            if len(same) != 1:
                continue
            if i + 1 >= len(doc.recs):
                continue
            nxt = doc.recs[i + 1]
            if isinstance(nxt.node, _FakeNode):
                continue
            # after deletion the following segment must still match its own node first, starting from the predecessor
            prev = prev_real(doc, i)
            if gen_doc.first_match(prev.node, nxt.node.id, nxt.vals) is not nxt.node:
                continue
            cands.append(i)
        if not cands:
            return None
        # prefer a later instance of a loop that was interrupted by a sibling loop of the same map position (X, Y, X):
        # per-instance bookkeeping of the validator must not be fooled by the earlier X
        special = []
        for i in cands:
            r = doc.recs[i]
            if not r.chain:
                continue
            loop, inst = r.chain[-1]
            parent_chain = r.chain[:-1]
            seen_same = seen_other_after = False
            for q in doc.recs[:i]:
                if q.chain[:len(parent_chain)] != parent_chain or len(q.chain) <= len(parent_chain):
                    continue
                l2, i2 = q.chain[len(parent_chain)]
                if l2 is loop and i2 != inst:
                    seen_same = True
                    seen_other_after = False
                elif l2 is not loop and getattr(l2, 'pos', None) == loop.pos and seen_same:
                    seen_other_after = True
            if seen_same and seen_other_after:
                special.append(i)
        i = rng.choice(special) if (special and rng.random() < 0.75) else rng.choice(cands)
        after_sibling = i in special
        d = clone(doc)
        node = d.recs[i].node
        del_chain = list(d.recs[i].chain)
        del d.recs[i]
        fix_se(d)
        si, pos = locate(d, i)     # the position the segment would have had == position of its successor now
        # siblings at the same map position may come in any order, so the absence is only known (and may be reported) once a later
        # position shows up: any position up to and including that segment is acceptable
        hi = pos
        j = i
        while j < len(d.recs) and d.recs[j].node.pos == node.pos and d.recs[j].node.parent is node.parent and d.recs[j].chain == del_chain:
            hi += 1
            j += 1
        return Fault(doc=d, kind='missing_segment', level='seg', set_index=si, seg_pos=pos, seg_pos_max=hi, seg_id=node.id, ele_pos=None, codes=['3'], rec_index=i,
                     node_path=node.path(), alters_matching=False, note='later-instance-after-sibling' if after_sibling else None)

    @staticmethod
    def max_use(rng, doc):
        cands = []
        for i, r in enumerate(doc.recs):
            n = r.node
            if not is_body(r) or n.id in ('HL', 'LX', 'BHT', 'CLM'):
                continue
            mx = n.max_repeat()
            if mx > 3:
                continue
            if n.parent.kind == 'loop' and n.parent.first_seg() is n:
                continue
            same = [k for k, q in enumerate(doc.recs) if q.node is n and q.chain == r.chain]
            if same[-1] != i:
                continue
            cands.append((i, mx - len(same) + 1))
        if not cands:
            return None
        i, extra = rng.choice(cands)
        d = clone(doc)
        for _ in range(extra):
            d.recs.insert(i + 1, gen_doc.Rec(d.recs[i].node, copy.deepcopy(d.recs[i].vals), list(d.recs[i].chain)))
        fix_se(d)
        j = i + extra            # the first instance beyond the limit
        si, pos = locate(d, j)
        return Fault(doc=d, kind='max_use', level='seg', set_index=si, seg_pos=pos, seg_id=d.recs[j].node.id, ele_pos=None, codes=['5'], rec_index=j,
                     node_path=d.recs[j].node.path(), alters_matching=False)

    @staticmethod
    def loop_repeat(rng, doc):
        # loops with a small repeat limit: duplicate one whole instance until the limit is exceeded by one
        inst = {}
        for i, r in enumerate(doc.recs):
            for depth, (l, n) in enumerate(r.chain):
                inst.setdefault((id(l), n), [l, depth, i, i])[3] = i
        cands = []
        for (lid, n), (l, depth, a, b) in inst.items():
            if l.kind != 'loop' or l.type == 'wrapper' or l.id in ('ISA_LOOP', 'GS_LOOP', 'ST_LOOP') or l.first_seg() is None:
                continue
            if l.first_seg().id in ('HL', 'LX'):
                continue
            mx = l.max_repeat()
            if mx > 3:
                continue
            parent_key = tuple(doc.recs[a].chain[:depth])
            sibs = [k for k, (l2, d2, a2, b2) in inst.items() if l2 is l and tuple(doc.recs[a2].chain[:d2]) == parent_key]
            last = max(inst[k][3] for k in sibs)
            if inst[(lid, n)][3] != last:
                continue
            # the copy is appended right after the instance: from there its first segment must match this loop's first node first
            if isinstance(doc.recs[b].node, _FakeNode) or isinstance(doc.recs[a].node, _FakeNode):
                continue
            if gen_doc.first_match(doc.recs[b].node, doc.recs[a].node.id, doc.recs[a].vals) is not doc.recs[a].node:
                continue
            cands.append((a, b, mx - len(sibs) + 1, l))
        if not cands:
            return None
        a, b, extra, l = rng.choice(cands)
        d = clone(doc)
        block = d.recs[a:b + 1]
        at = b + 1
        for k in range(extra):
            for q in block:
                d.recs.insert(at, gen_doc.Rec(q.node, copy.deepcopy(q.vals), list(q.chain)))
                at += 1
        fix_se(d)
        j = b + 1 + (extra - 1) * len(block)
        si, pos = locate(d, j)
        return Fault(doc=d, kind='loop_repeat', level='seg', set_index=si, seg_pos=pos, seg_id=d.recs[j].node.id, ele_pos=None, codes=['4'], rec_index=j,
                     node_path=l.path(), alters_matching=False)


class _FakeNode(object):
    kind = 'seg'
    usage = 'S'
    children = ()
    syntax = ()
    parent = None
    pos = 0

    def __init__(self, sid):
        self.id = sid

    def path(self):
        return '?/' + self.id

    def max_repeat(self):
        return 1
