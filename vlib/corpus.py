"""Base documents shared by the mutation-driven checks: the suite's fixtures and small generated documents."""
import zlib

from vlib import gen_doc


def fixtures():
    from pyx12.test.x12testdata import datafiles
    return dict((k, v['source']) for k, v in datafiles.items())


def small_doc(entry, seed, charset='B', rich=False, n_st=1, n_gs=1, n_isa=1, fill=0.3, opt_prob=0.35, maxrep=1, **kw):
    return gen_doc.gen_document(entry, seed, fill=fill, opt_prob=opt_prob, maxrep=maxrep, charset=charset, rich=rich, n_st=n_st, n_gs=n_gs, n_isa=n_isa, **kw)


def generated(seed, count, max_segments=160, skip_files=('841.4010.XXXC.xml',), **kw):
    """deterministic list of small conformant documents spread over all selectable maps"""
    entries = [e for e in gen_doc.index_entries() if e['file'] not in skip_files]
    out = []
    k = 0
    tries = 0
    while len(out) < count and tries < count * 6:
        e = entries[(k + seed) % len(entries)]
        s = zlib.crc32(repr((seed, k)).encode())
        k += 1
        tries += 1
        try:
            d = small_doc(e, s, charset='E' if k % 2 else 'B', rich=(k % 3 == 0), n_st=1 + (k % 5 == 0), **kw)
        except gen_doc.GenFailed:
            continue
        if len(d.recs) <= max_segments:
            out.append(d)
    return out
