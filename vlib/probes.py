"""Record-only runtime contracts (icontract) on the real functions, installed from the harness (DESIGN section 3).

The conditions append to a log and return True, so a disagreement neither aborts nor perturbs the execution under
observation.  After installing, every loaded pyx12 module is scanned for names still bound to the undecorated
function (`from m import f` aliases) and those are re-bound; the list is returned for the binding audit.
"""
import sys

import icontract


class ContractDisagreement(Exception):
    pass


def _rebind(orig, new):
    patched = []
    for mname, mod in list(sys.modules.items()):
        if mod is None or not (mname == 'pyx12' or mname.startswith('pyx12.')):
            continue
        for k, v in list(vars(mod).items()):
            if v is orig:
                setattr(mod, k, new)
                patched.append('%s.%s' % (mname, k))
    return patched


def survivors(orig):
    out = []
    for mname, mod in list(sys.modules.items()):
        if mod is None or not (mname == 'pyx12' or mname.startswith('pyx12.')):
            continue
        for k, v in list(vars(mod).items()):
            if v is orig:
                out.append('%s.%s' % (mname, k))
    return out


def install_type_contract(log):
    """log: list receiving (value, data_type, charset, icvn, result, expected, reason)"""
    import pyx12.map_if      # make sure the users are loaded before the audit
    import pyx12.validation as V
    from vlib import ref_values
    orig = V.IsValidDataType
    if getattr(orig, '_verif_contract', False):
        return [], orig

    def agrees_with_value_language(str_val, data_type, charset, icvn, result):
        if not data_type or data_type == 'B':
            return True
        try:
            exp, why = ref_values.valid(str_val, data_type, charset, icvn)
        except KeyError:
            return True
        log.append((str_val, data_type, charset, icvn, result, exp, why))
        return True

    wrapped = icontract.ensure(agrees_with_value_language, error=ContractDisagreement)(orig)
    wrapped._verif_contract = True
    patched = _rebind(orig, wrapped)
    return patched, orig


def install_syntax_contract(log):
    """log: list receiving (seg id, note, element presence list, result, expected)"""
    import pyx12.map_if
    import pyx12.syntax as S
    orig = S.is_syntax_valid
    if getattr(orig, '_verif_contract', False):
        return [], orig

    def agrees_with_x12_definition(seg_data, syn, result):
        if len(syn) < 3 or syn[0] not in 'PRECL':
            return True
        idx = [int(x) for x in syn[1:]]
        pres = []
        for i in idx:
            v = seg_data.get_value('%02d' % i) if i <= len(seg_data) else None
            pres.append(v not in (None, ''))
        t = syn[0]
        if t == 'P':
            exp = all(pres) or not any(pres)
        elif t == 'R':
            exp = any(pres)
        elif t == 'E':
            exp = sum(pres) <= 1
        elif t == 'C':
            exp = (not pres[0]) or all(pres[1:])
        else:
            exp = (not pres[0]) or any(pres[1:])
        log.append((seg_data.get_seg_id(), t + ''.join('%02d' % i for i in idx), pres, bool(result[0]), exp))
        return True

    wrapped = icontract.ensure(agrees_with_x12_definition, error=ContractDisagreement)(orig)
    wrapped._verif_contract = True
    patched = _rebind(orig, wrapped)
    return patched, orig
