"""Harness around pyx12.x12n_document with the probes of DESIGN section 3 attached from outside.

validate(text, ...) -> Result with verdict / escaped exception, captured error tree (plain tuples),
ERROR log records, acknowledgement, HTML and XML text.
"""
import io
import logging
import sys
import traceback

_installed = False
_last_errh = []
_log_records = []


class _Capture(logging.Handler):
    def emit(self, record):
        try:
            msg = record.getMessage()
        except Exception:
            msg = str(record.msg)
        _log_records.append((record.levelno, record.name, msg, bool(record.exc_info)))


def install():
    """error-tree capture + reported-error stream"""
    global _installed
    if _installed:
        return
    import pyx12.error_handler as EH
    orig_init = EH.err_handler.__init__

    def init(self, *a, **k):
        orig_init(self, *a, **k)
        _last_errh.append(self)
    EH.err_handler.__init__ = init
    lg = logging.getLogger('pyx12')
    lg.setLevel(logging.ERROR)
    lg.addHandler(_Capture())
    lg.propagate = False
    for name in ('pyx12.error_handler', 'pyx12.error_997', 'pyx12.error_999', 'pyx12.walk_tree', 'pyx12.x12xml.simple'):
        logging.getLogger(name).setLevel(logging.ERROR)
    _installed = True


def walk_tree(errh):
    """error tree -> list of plain tuples
    (level, isa#, gs#, st#, seg_id, seg_count, cur_line, ele_pos, subele_pos, code, value, ele_ref_num)
    isa#/gs#/st# are ordinals inside the parent."""
    out = []

    def eles(lvl, ii, gi, si, node, seg_id, seg_count, cur_line):
        for e in getattr(node, 'elements', []):
            for (code, msg, val) in e.errors:
                out.append(('ele', ii, gi, si, seg_id, seg_count, cur_line, e.ele_pos, e.subele_pos, code, val, e.ele_ref_num, lvl, msg))
    for ii, isa in enumerate(errh.children):
        for (code, msg) in isa.errors:
            out.append(('isa', ii, None, None, 'ISA', None, isa.cur_line_isa, None, None, code, None, None, 'isa', msg))
        eles('isa', ii, None, None, isa, 'ISA/IEA', None, isa.cur_line_isa)
        for gi, gs in enumerate(isa.children):
            for (code, msg) in gs.errors:
                out.append(('gs', ii, gi, None, 'GS', None, gs.cur_line_gs, None, None, code, None, None, 'gs', msg))
            eles('gs', ii, gi, None, gs, 'GS/GE', None, gs.cur_line_gs)
            for si, st in enumerate(gs.children):
                for (code, msg) in st.errors:
                    out.append(('st', ii, gi, si, 'ST', None, st.cur_line_st, None, None, code, None, None, 'st', msg))
                eles('st', ii, gi, si, st, 'ST/SE', None, st.cur_line_st)
                for seg in st.children:
                    for (code, msg, val) in seg.errors:
                        out.append(('seg', ii, gi, si, seg.seg_id, seg.seg_count, seg.cur_line, None, None, code, val, None, 'seg', msg))
                    eles('seg', ii, gi, si, seg, seg.seg_id, seg.seg_count, seg.cur_line)
    return out


def tree_shape(errh):
    """[(isa: [(gs: [st ack codes])])] with control numbers, for the acknowledgement oracle"""
    out = []
    for isa in errh.children:
        gl = []
        for gs in isa.children:
            sl = []
            for st in gs.children:
                sl.append({'st01': st.trn_set_id, 'st02': st.trn_set_control_num, 'st03': st.vriic, 'ack': st.ack_code, 'nerr': st.get_error_count(), 'closed': st.is_closed(),
                           'line_st': st.cur_line_st, 'line_se': st.cur_line_se})
            gl.append({'fic': gs.fic, 'gs06': gs.gs_control_num, 'vriic': gs.vriic, 'ack': gs.ack_code, 'orig': gs.st_count_orig, 'recv': gs.st_count_recv,
                       'nerr': gs.get_error_count(), 'sets': sl, 'closed': gs.is_closed(), 'line_gs': gs.cur_line_gs, 'line_ge': gs.cur_line_ge})
        out.append({'isa13': isa.isa_trn_set_id, 'groups': gl, 'nerr': isa.get_error_count(), 'closed': isa.is_closed(), 'line_isa': isa.cur_line_isa, 'line_iea': isa.cur_line_iea})
    return out


class Result(object):
    def __init__(self):
        self.verdict = None
        self.exc = None
        self.exc_key = None
        self.exc_tb = None
        self.errors = []
        self.shape = []
        self.error_count = None
        self.logs = []
        self.ack = None
        self.html = None
        self.xml = None
        self.errh = None

    def error_logs(self):
        return [r for r in self.logs if r[0] >= logging.ERROR]


def validate(text, charset='B', ack=True, html=False, xml=False, src=None, map_path=None, params=None, exclude_external=None, callback=None):
    import pyx12.x12n_document
    import pyx12.params
    from vlib.worker import exc_key
    install()
    p = params
    if p is None:
        p = pyx12.params.params()
        if charset is not None:
            p.set('charset', charset)
        if exclude_external:
            p.set('exclude_external_codes', exclude_external)
    f997 = io.StringIO() if ack else None
    fh = io.StringIO() if html else None
    fx = io.StringIO() if xml else None
    del _last_errh[:]
    del _log_records[:]
    res = Result()
    source = src if src is not None else io.StringIO(text)
    try:
        res.verdict = pyx12.x12n_document.x12n_document(p, source, f997, fh, fx, None, map_path, callback)
    except Exception as e:
        res.exc = e
        res.exc_key = exc_key(e)
        res.exc_tb = traceback.format_exc()[-1500:]
    res.logs = list(_log_records)
    if _last_errh:
        res.errh = _last_errh[0]
        try:
            res.errors = walk_tree(res.errh)
            res.shape = tree_shape(res.errh)
            res.error_count = res.errh.get_error_count()
        except Exception as e:      # a tree that cannot be walked is itself an observation
            res.errors = None
            res.tree_exc = repr(e)
    res.ack = f997.getvalue() if f997 is not None else None
    res.html = fh.getvalue() if fh is not None else None
    res.xml = fx.getvalue() if fx is not None else None
    return res
