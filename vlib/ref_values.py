"""C13 reference: the X12 value languages, written from the property text (no pyx12 import).

valid(value, data_type, charset, icvn) -> (bool, reason)   reason names why the model rejects.
"""
import calendar

DIGITS = frozenset('0123456789')
BASIC = frozenset('ABCDEFGHIJKLMNOPQRSTUVWXYZ0123456789!"&\'()*+,-./:;?= ')
EXTENDED = BASIC | frozenset('abcdefghijklmnopqrstuvwxyz%~@[]_{}\\|<>#$')
EXTENDED_5010 = EXTENDED | frozenset('^`')


def charset_of(charset, icvn):
    if charset == 'B':
        return BASIC
    if charset == 'E':
        return EXTENDED_5010 if icvn == '00501' else EXTENDED
    return None


def _all_digits(s):
    return len(s) > 0 and all(c in DIGITS for c in s)


def date8(s):
    if len(s) != 8:
        return (False, 'length')
    if not _all_digits(s):
        return (False, 'nondigit')
    y, m, d = int(s[0:4]), int(s[4:6]), int(s[6:8])
    if y < 1800:
        return (False, 'before-1800')
    if m < 1 or m > 12:
        return (False, 'month')
    if d < 1 or d > calendar.monthrange(y, m)[1]:
        return (False, 'day')
    return (True, None)


def date6(s):
    if len(s) != 6:
        return (False, 'length')
    if not _all_digits(s):
        return (False, 'nondigit')
    cc = '20' if int(s[0:2]) < 50 else '19'
    return date8(cc + s)


def time_(s):
    if not all(c in DIGITS for c in s):
        return (False, 'nondigit')
    if len(s) not in (4, 6, 7, 8):
        return (False, 'len%s' % ('<4' if len(s) < 4 else ('5' if len(s) == 5 else '>8')))
    if int(s[0:2]) > 23:
        return (False, 'hour')
    if int(s[2:4]) > 59:
        return (False, 'minute')
    if len(s) >= 6 and int(s[4:6]) > 59:
        return (False, 'second')
    return (True, None)


def hhmm(s):
    if len(s) != 4:
        return (False, 'length')
    return time_(s)


def valid(val, data_type, charset='B', icvn='00401'):
    if not isinstance(val, str):
        return (False, 'nonstring')
    if data_type[0] == 'N':
        body = val[1:] if val[:1] == '-' else val
        if _all_digits(body):
            return (True, None)
        return (False, 'no-digit' if not any(c in DIGITS for c in val) else 'shape')
    if data_type == 'R':
        body = val[1:] if val[:1] == '-' else val
        if not any(c in DIGITS for c in body):
            return (False, 'no-digit')
        if body.count('.') > 1:
            return (False, 'points')
        if '.' in body:
            ip, fp = body.split('.')
            if (ip == '' or _all_digits(ip)) and _all_digits(fp):
                return (True, None)
            return (False, 'shape')
        return (True, None) if _all_digits(body) else (False, 'shape')
    if data_type in ('AN', 'ID'):
        cs = charset_of(charset, icvn)
        for c in val:
            if c not in cs:
                return (False, 'char')
        return (True, None)
    if data_type == 'D8':
        return date8(val)
    if data_type == 'D6':
        return date6(val)
    if data_type == 'DT':
        if len(val) == 8:
            return date8(val)
        if len(val) == 6:
            return date6(val)
        if len(val) == 12:
            ok, why = date8(val[:8])
            if not ok:
                return (ok, why)
            ok, why = hhmm(val[8:])
            return (ok, ('time-' + why) if why else None)
        if not all(c in DIGITS for c in val):
            return (False, 'nondigit')
        return (False, 'length')
    if data_type == 'RD8':
        n = val.count('-')
        if n != 1:
            return (False, 'hyphens=%d' % min(n, 2))
        a, b = val.split('-')
        oka, _ = date8(a)
        okb, _ = date8(b)
        return (True, None) if (oka and okb) else (False, 'half')
    if data_type == 'TM':
        return time_(val)
    raise KeyError(data_type)
