"""Delimiter / line-break re-encoding of an interchange text (no pyx12 import)."""
from vlib import ref_token

# candidates: printable non-alphanumerics and a few control characters
SEG_CANDS = list('~!\'$%&?@[]{}|<>=;`^+#') + ['\n', '\r', '\x1c', '\x1e', '\x15']
ELE_CANDS = list('*|^+!,;=#%&@?<>{}') + ['\x1d', '\x1f']
SUB_B = list(':!&()+,./;?=\'"*-')                    # component separator must be in the basic character set (all its punctuation, incl. * and -)
SUB_E = SUB_B + list('\\|<>~@[]_{}#$%')              # ... or the extended one when charset E
EOLS = ['', '\n', '\r\n', '\r', '\n\n', 'mixed']


def reencode(text, seg_t, ele_t, sub_t, eol='', rep_t=None):
    """Re-encode `text` (every interchange in it must use the delimiters of the first ISA)."""
    (s0, e0, c0), pieces = ref_token.tokenize(text, keep_empty=True)
    out = []
    for p in pieces:
        if p.blank_only:
            # an empty or blank-only segment stays one: terminator right after terminator (+ line break), blanks kept
            out.append((p.lead if not p.empty else '') + seg_t)
            continue
        if p.sid == 'ISA':
            vals = [c[0] for c in p.elements]
            if len(vals) >= 16:
                vals[15] = vals[15].replace(c0, sub_t) if c0 in vals[15] else vals[15]      # a damaged ISA16 (second interchange) stays damaged in the same way
                if rep_t is not None and len(vals) >= 11 and vals[11] == '00501':
                    vals[10] = rep_t
            out.append(ele_t.join(['ISA'] + vals) + seg_t)
        else:
            lead = p.lead if not any(t in p.lead for t in (seg_t, ele_t, sub_t)) else ' '
            out.append(lead + ele_t.join([p.sid] + [sub_t.join(c) for c in p.elements]) + seg_t)
    if eol == 'mixed':
        # every terminator followed by its own choice of nothing / LF / CR LF / CR (files stitched together from parts written by different systems)
        pat = ['\n', '', '\r\n', '\n', '\r', '\r\n', '']
        return ''.join(o + pat[(i * 5 + len(o)) % len(pat)] for i, o in enumerate(out))
    return eol.join(out) + eol


def data_chars(text):
    (s0, e0, c0), pieces = ref_token.tokenize(text)
    chars = set()
    for p in pieces:
        chars.update(p.sid)
        for i, comps in enumerate(p.elements):
            if p.sid == 'ISA' and i == 15:
                continue
            for c in comps:
                chars.update(c)
    return chars


def isa_version(text):
    (s0, e0, c0), pieces = ref_token.tokenize(text)
    if pieces and pieces[0].sid == 'ISA' and len(pieces[0].elements) >= 12:
        return pieces[0].elements[11][0]
    return None


def pick_terms(rng, text, charset='B', ctrl_ele=False, fmt_ele=False, force_sub=None):
    """ctrl_ele: take the element separator from the characters Python's str methods treat as whitespace (FS/GS/RS/US, tab)"""
    used = data_chars(text)
    segc = [c for c in SEG_CANDS if c not in used]
    seg_t = rng.choice(segc)
    elec = [c for c in ELE_CANDS if c not in used and c != seg_t]
    if ctrl_ele:
        elec = [c for c in ['\x1c', '\x1d', '\x1e', '\x1f', '\t'] if c not in used and c != seg_t] or elec
    if fmt_ele:
        # characters that mean something to str.format / % formatting, should a message ever be formatted twice
        elec = [c for c in ['{', '}', '%'] if c not in used and c != seg_t] or elec
    ele_t = rng.choice(elec)
    pool = list(SUB_E if charset == 'E' else SUB_B)
    if charset == 'E' and isa_version(text) == '00501':
        pool += ['^', '`']          # the 5010 extended set has two more characters (free when the header names another repetition separator)
    subc = [c for c in pool if c not in used and c not in (seg_t, ele_t)]
    sub_t = rng.choice(subc)
    if force_sub is not None and force_sub in subc:
        sub_t = force_sub
    # a line-break character as terminator may itself be followed by the other one (a CR LF file whose declared terminator is the CR)
    eol = rng.choice(EOLS) if seg_t not in '\r\n' else rng.choice(['', '', '\n' if seg_t == '\r' else '\r'])
    return seg_t, ele_t, sub_t, eol
