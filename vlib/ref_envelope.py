"""Independent envelope recount (C04, C06, C11, C20).  No pyx12 import.

A document is a list of (seg_id, [element strings]).  recount() decides whether the ISA/GS/ST headers and
trailers nest properly (a prefix of a fully nested sequence counts: trailers missing at end of input are one
of the discrepancies the property lists) and, if so, the exact discrepancies with the index of the segment at
which each becomes known ('eof' for missing trailers).
"""

ENVELOPE_CODES = {
    'isa': {'025', '001', '021', '023', '024'},
    'gs': {'6', '4', '5', '3'},
    'st': {'23', '3', '4', '2'},
    'seg': {'HL1', 'HL2', 'LX'},
}


def is_envelope_error(level, code):
    return code in ENVELOPE_CODES.get(level, ())


def canon_int(s):
    """int value of a canonical unsigned decimal string, else None ('03', ' 3', '+3' -> 'odd')."""
    if s is None:
        return None
    if s != '' and all(c in '0123456789' for c in s):
        if len(s) > 1 and s[0] == '0':
            return 'odd'
        return int(s)
    try:
        int(s)
        return 'odd'       # python would parse it, X12 N0 would arguably not: don't-care
    except (ValueError, TypeError):
        return None


def el(elements, n):
    """n-th element (1-based) or None when the segment is shorter."""
    return elements[n - 1] if n <= len(elements) else None


class Result(object):
    def __init__(self):
        self.proper = True
        self.why_improper = None
        self.must = []          # (idx, level, code)
        self.dontcare = set()   # (idx, level, code) that may or may not be reported
        self.shape = []         # signature pieces


def recount(segs, check_lx=False):
    res = Result()
    depth = 0              # 0 outside, 1 in ISA, 2 in GS, 3 in ST
    isa_ids = []
    gs_ids = []
    st_ids = []
    isa_id = gs_id = st_id = None
    ngs = nst = nseg = 0
    hl_run = 0
    hl_any_wrong = False
    chain = []             # must-not-flag ancestors (running numbers)
    lx_run = None          # None: no CLM seen in this set yet -> LX is don't-care

    def improper(why, i):
        if res.proper:
            res.proper = False
            res.why_improper = '%s at %d' % (why, i)

    for i, (sid, e) in enumerate(segs):
        if sid == 'ISA':
            if depth != 0:
                improper('ISA inside open interchange', i)
            depth = 1
            isa_id = el(e, 13)
            if isa_id in isa_ids:
                res.must.append((i, 'isa', '025'))
            isa_ids.append(isa_id)
            ngs = 0
            gs_ids = []
        elif sid == 'GS':
            if depth != 1:
                improper('GS not directly inside ISA', i)
            depth = 2
            gs_id = el(e, 6)
            if gs_id in gs_ids:
                res.must.append((i, 'gs', '6'))
            gs_ids.append(gs_id)
            ngs += 1
            nst = 0
            st_ids = []
        elif sid == 'ST':
            if depth != 2:
                improper('ST not directly inside GS', i)
            depth = 3
            st_id = el(e, 2)
            if st_id in st_ids:
                res.must.append((i, 'st', '23'))
            st_ids.append(st_id)
            nst += 1
            nseg = 1
            hl_run = 0
            hl_any_wrong = False
            chain = []
            lx_run = None
        elif sid == 'SE':
            if depth != 3:
                improper('SE without open ST', i)
            nseg += 1
            if el(e, 2) != st_id:
                res.must.append((i, 'st', '3'))
            c = canon_int(el(e, 1))
            if c == 'odd':
                res.dontcare.add((i, 'st', '4'))
            elif c != nseg:
                res.must.append((i, 'st', '4'))
            depth = 2
        elif sid == 'GE':
            if depth != 2:
                improper('GE without open GS (or with open ST)', i)
            if el(e, 2) != gs_id:
                res.must.append((i, 'gs', '4'))
            c = canon_int(el(e, 1))
            if c == 'odd':
                res.dontcare.add((i, 'gs', '5'))
            elif c != nst:
                res.must.append((i, 'gs', '5'))
            depth = 1
        elif sid == 'IEA':
            if depth != 1:
                improper('IEA without open ISA (or with open GS)', i)
            if el(e, 2) != isa_id:
                res.must.append((i, 'isa', '001'))
            c = canon_int(el(e, 1))
            if c == 'odd':
                res.dontcare.add((i, 'isa', '021'))
            elif c != ngs:
                res.must.append((i, 'isa', '021'))
            depth = 0
        else:
            nseg += 1
            if depth != 3:
                # body outside a set: counts are unaffected, HL/LX numbering there is undefined
                if sid in ('HL', 'LX'):
                    res.dontcare.add((i, 'seg', 'HL1'))
                    res.dontcare.add((i, 'seg', 'HL2'))
                    res.dontcare.add((i, 'seg', 'LX'))
                    hl_any_wrong = True
                    lx_run = None
                continue
            if sid == 'HL':
                hl_run += 1
                c = canon_int(el(e, 1))
                if c == 'odd':
                    res.dontcare.add((i, 'seg', 'HL1'))
                    hl_any_wrong = True
                elif c != hl_run:
                    res.must.append((i, 'seg', 'HL1'))
                    hl_any_wrong = True
                par = el(e, 2)
                if par is None or par == '':
                    chain = [hl_run]
                else:
                    p = canon_int(par)
                    if hl_any_wrong or p == 'odd':
                        res.dontcare.add((i, 'seg', 'HL2'))
                        chain = [hl_run]
                    elif p is None or not (1 <= p < hl_run):
                        res.must.append((i, 'seg', 'HL2'))
                        chain = [hl_run]
                    elif p in chain:
                        chain = chain[:chain.index(p) + 1] + [hl_run]
                    else:
                        res.dontcare.add((i, 'seg', 'HL2'))
                        chain = [hl_run]
            elif check_lx and sid == 'CLM':
                lx_run = 0
            elif check_lx and sid == 'LX':
                if lx_run is None:
                    res.dontcare.add((i, 'seg', 'LX'))
                else:
                    lx_run += 1
                    c = canon_int(el(e, 1))
                    if c == 'odd':
                        res.dontcare.add((i, 'seg', 'LX'))
                    elif c != lx_run:
                        res.must.append((i, 'seg', 'LX'))
    if depth >= 1:
        res.must.append(('eof', 'isa', '023'))
    if depth >= 2:
        res.must.append(('eof', 'gs', '3'))
    if depth >= 3:
        res.must.append(('eof', 'st', '2'))
    return res


ISA_WIDTHS = [2, 10, 2, 10, 2, 15, 2, 15, 6, 4, 1, 5, 9, 1, 1, 1]


def isa_elements(ctl='000000001', icvn='00401', sub=':', rep=None, sender='SENDER', receiver='RECEIVER', ta1='0', usage='P'):
    if rep is None:
        rep = '^' if icvn == '00501' else 'U'
    return ['00', ' ' * 10, '00', ' ' * 10, 'ZZ', sender.ljust(15), 'ZZ', receiver.ljust(15),
            '040608', '1333', rep, icvn, ctl, ta1, usage, sub]


def render(segs, seg_t='~', ele_t='*', sub_t=':', eol=''):
    """Element values containing ':' are written as given (callers pass composites already joined)."""
    out = []
    for sid, e in segs:
        out.append(ele_t.join([sid] + list(e)) + seg_t)
    return eol.join(out) + (eol if out else '')
