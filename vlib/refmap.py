"""Independent reading of the pyx12 map XML .  No pyx12 imports."""
import os, re
import xml.etree.ElementTree as ET

MAPDIR = os.path.join(os.environ.get('VERIF_REPO', '/repo'), 'pyx12', 'map')


def _g(e, name):
    v = e.get(name)
    if v:
        return v
    return e.findtext(name)


class N(object):
    kind = None

    def path(self):
        p = []
        n = self
        while n is not None and n.kind != 'root':
            p.append(str(n.id))
            n = n.parent
        return '/' + '/'.join(reversed(p))


class Root(N):
    kind = 'root'

    def __init__(self, e):
        self.id = e.get('xid')
        self.parent = None
        self.pos = 0
        self.children = _children(self, e)


class Loop(N):
    kind = 'loop'

    def __init__(self, parent, e):
        self.parent = parent
        self.id = e.get('xid')
        self.usage = _g(e, 'usage')
        self.pos = int(_g(e, 'pos'))
        self.repeat = _g(e, 'repeat')
        self.type = e.get('type')
        self.name = _g(e, 'name')
        self.children = _children(self, e)

    def max_repeat(self):
        if self.repeat is None or self.repeat == '>1':
            return 10 ** 9
        return int(self.repeat)

    def first_seg(self):
        c = self.children[0] if self.children else None
        return c if c is not None and c.kind == 'seg' else None


class Seg(N):
    kind = 'seg'

    def __init__(self, parent, e):
        self.parent = parent
        self.id = e.get('xid')
        self.usage = _g(e, 'usage')
        self.pos = int(_g(e, 'pos'))
        self.max_use = _g(e, 'max_use')
        self.name = _g(e, 'name')
        self.syntax = [s.text for s in e.findall('syntax')]
        kids = []
        for c in e:
            if c.tag == 'element':
                kids.append(Ele(self, c))
            elif c.tag == 'composite':
                kids.append(Comp(self, c))
        kids.sort(key=lambda k: k.seq)
        self.children = kids

    def max_repeat(self):
        if self.max_use is None or self.max_use == '>1':
            return 10 ** 9
        return int(self.max_use)


class Ele(N):
    kind = 'ele'

    def __init__(self, parent, e):
        self.parent = parent
        self.id = e.get('xid')
        self.data_ele = _g(e, 'data_ele')
        self.usage = _g(e, 'usage')
        self.seq = int(_g(e, 'seq'))
        self.name = _g(e, 'name')
        self.regex = e.findtext('regex')
        self.codes = []
        self.external = None
        v = e.find('valid_codes')
        if v is not None:
            self.external = v.get('external')
            self.codes = [c.text for c in v.findall('code')]


class Comp(N):
    kind = 'comp'

    def __init__(self, parent, e):
        self.parent = parent
        self.id = e.get('xid')
        self.data_ele = _g(e, 'data_ele')
        self.usage = _g(e, 'usage')
        self.seq = int(_g(e, 'seq'))
        self.name = _g(e, 'name')
        self.repeat = _g(e, 'repeat')
        self.children = sorted([Ele(self, c) for c in e.findall('element')], key=lambda k: k.seq)


def _children(parent, e):
    kids = []
    order = 0
    # pyx12 puts all loops of a position before all segments of that position
    for c in e.findall('loop'):
        kids.append((int(_g(c, 'pos')), 0, order, Loop(parent, c)))
        order += 1
    for c in e.findall('segment'):
        kids.append((int(_g(c, 'pos')), 1, order, Seg(parent, c)))
        order += 1
    kids.sort(key=lambda t: (t[0], t[1], t[2]))
    return [k[3] for k in kids]


def load(fn):
    return Root(ET.parse(os.path.join(MAPDIR, fn)).getroot())


def load_dataele():
    d = {}
    for e in ET.parse(os.path.join(MAPDIR, 'dataele.xml')).getroot().iter('data_ele'):
        d[e.get('ele_num')] = (e.get('data_type'), int(e.get('min_len')), int(e.get('max_len')))
    return d


def load_codes():
    d = {}
    for cs in ET.parse(os.path.join(MAPDIR, 'codes.xml')).getroot().iter('codeset'):
        d[cs.findtext('id')] = [c.text for c in cs.iterfind('version/code')]
    return d


def load_index():
    out = []
    for v in ET.parse(os.path.join(MAPDIR, 'maps.xml')).getroot().iter('version'):
        for m in v.findall('map'):
            out.append(dict(icvn=v.get('icvn'), vriic=m.get('vriic'), fic=m.get('fic'), tspc=m.get('tspc'), file=m.text))
    return out


def walk(n):
    yield n
    for c in getattr(n, 'children', []):
        for x in walk(c):
            yield x


def map_files():
    """Every map-shaped XML file shipped (transaction maps and the two control maps)."""
    return sorted(f for f in os.listdir(MAPDIR)
                  if f.endswith('.xml') and (f[0].isdigit() or f.startswith('x12.control')))


def segments(root):
    for n in walk(root):
        if n.kind == 'seg':
            yield n
