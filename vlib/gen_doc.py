"""Conformant-document generator driven by an independent reading of the map XML (vlib/refmap).  No pyx12 import.

gen_document(entry, seed, ...) -> Doc
  Doc.recs : list of Rec(node, vals, chain)   vals: list of str | list[str] (composite); chain: [(loop node, instance no)]
  Doc.text(seg_t, ele_t, sub_t, eol)

Conservative conformance (DESIGN 4.1): wrappers are transparent, a segment is kept only if the first candidate under
ordered positional matching is the intended node, 1251 values follow the actual 1250 qualifier, no blank-only
segments, no trailing blanks, no delimiter characters in data.
"""
import calendar
import copy
import random
import re

from vlib import refmap

_DE = None
_CODES = None
_MAPS = {}


def DE():
    global _DE
    if _DE is None:
        _DE = refmap.load_dataele()
    return _DE


def CODES():
    global _CODES
    if _CODES is None:
        _CODES = refmap.load_codes()
    return _CODES


def load_map(fn):
    if fn not in _MAPS:
        _MAPS[fn] = refmap.load(fn)
    return _MAPS[fn]


UPPER = 'ABCDEFGHIJKLMNOPQRSTUVWXYZ'
DIGITS = '0123456789'
B_PUNCT = '!"&\'()+,-./;?='
E_EXTRA = 'abcdefghijklmnopqrstuvwxyz%@[]_{}#$<>|'
DATE_FMTS = ('D8', 'RD8', 'D6', 'DT', 'TM')


def dtype_of(ele):
    d = DE().get(ele.data_ele)
    if d is None:
        return ('AN', 1, 10)
    return d


class Values(object):
    def __init__(self, rng, charset='B', rich=False, forbid=''):
        self.rng = rng
        self.charset = charset
        self.rich = rich
        self.forbid = set(forbid)
        self.code_rot = {}

    def alpha(self, kind):
        if kind == 'ID':
            a = UPPER + DIGITS
        else:
            a = UPPER + DIGITS + ' '
            if self.rich:
                a += B_PUNCT + ('&&&\'\'""' if True else '')
                if self.charset == 'E':
                    a += E_EXTRA + '<<>>'
        return ''.join(c for c in a if c not in self.forbid)

    def date8(self):
        rng = self.rng
        y = rng.choice([1900, 1999, 2000, 2004, 2012, 2024, 1800, 2100, 1996, 2400])
        m = rng.randint(1, 12)
        if rng.random() < 0.2:
            m = 2
        last = calendar.monthrange(y, m)[1]
        d = rng.choice([1, last, rng.randint(1, last)])
        return '%04d%02d%02d' % (y, m, d)

    def time(self, n=4):
        rng = self.rng
        s = rng.choice(['0000', '2359', '%02d%02d' % (rng.randint(0, 23), rng.randint(0, 59))])
        if n >= 6:
            s += rng.choice(['00', '59', '%02d' % rng.randint(0, 59)])
        if n > 6:
            s += ''.join(rng.choice(DIGITS) for _ in range(n - 6))
        return s

    def by_format(self, fmt):
        if fmt == 'D8':
            return self.date8()
        if fmt == 'RD8':
            return self.date8() + '-' + self.date8()
        if fmt == 'D6':
            return self.date8()[2:]
        if fmt == 'DT':
            return self.date8() + self.time(4)
        if fmt == 'TM':
            return self.time(4)
        return None

    def value(self, ele, qual_fmt=None, cap=12, prefer=None):
        rng = self.rng
        dtype, mn, mx = dtype_of(ele)
        if ele.codes or ele.external:
            pool = list(ele.codes)
            if ele.external and ele.external in CODES():
                ext = [c for c in CODES()[ele.external] if c and mn <= len(c) <= mx]
                k = rng.randint(0, max(0, len(ext) - 40)) if len(ext) > 40 else 0
                pool = pool + list(ext[k:k + 40])
            pool = [c for c in pool if c and mn <= len(c) <= mx and c == c.rstrip() and not (set(c) & self.forbid)]
            if prefer:
                pp = [c for c in pool if c in prefer]
                if pp:
                    pool = pp
            if pool:
                if self.rich and ele.codes:
                    # rotate through inline codes so that every code is eventually used
                    key = id(ele)
                    i = self.code_rot.get(key, rng.randint(0, len(pool) - 1))
                    self.code_rot[key] = i + 1
                    return pool[i % len(pool)]
                return rng.choice(pool)
        if qual_fmt in DATE_FMTS:
            v = self.by_format(qual_fmt)
            if mn <= len(v) <= mx:
                return v
        if ele.regex:
            m = re.fullmatch(r'\[0-9\]\{(\d+)\}', ele.regex)
            if m:
                return ''.join(rng.choice(DIGITS) for _ in range(int(m.group(1))))
        hi = min(mx, max(mn, cap))
        n = rng.choice([mn, hi, rng.randint(mn, hi)]) if self.rich else rng.randint(mn, hi)
        n = max(n, 1)
        if dtype == 'DT':
            if mn <= 8 <= mx:
                return self.date8()
            if mn <= 6 <= mx:
                return self.date8()[2:]
            return self.date8() + self.time(4)
        if dtype == 'TM':
            opts = [k for k in (4, 6, 7, 8) if mn <= k <= mx]
            return self.time(rng.choice(opts) if opts else 4)
        if dtype[0] == 'N':
            s = ''.join(rng.choice(DIGITS) for _ in range(n))
            if self.rich and rng.random() < 0.15:
                s = '-' + s
            return s
        if dtype == 'R':
            s = ''.join(rng.choice(DIGITS) for _ in range(n))
            if n >= 2 and rng.random() < 0.35:
                k = rng.randint(1, n - 1)
                s = s[:k] + '.' + s[k:]
            elif rng.random() < 0.08:
                s = '.' + s                  # no integer part
            if self.rich and rng.random() < 0.15:
                s = '-' + s
            return s
        if dtype == 'ID':
            a = self.alpha('ID')
            return ''.join(rng.choice(a) for _ in range(n))
        a = self.alpha('AN')
        s = ''.join(rng.choice(a) for _ in range(n))
        if self.rich and self.charset == 'E' and n >= 4 and rng.random() < 0.08:
            # character sequences that mean something to an output syntax (XML, HTML), not only single characters
            toks = [t for t in (']]>', '<!--', '-->', '&#38;', '<?x', '?>', '&lt;', '<![CDATA[', ']]>', '&amp;') if len(t) <= n and not (set(t) & self.forbid)]
            if toks:
                t = rng.choice(toks)
                k = rng.randint(0, n - len(t))
                s = s[:k] + t + s[k + len(t):]
        s = s.rstrip()
        if s.strip() == '':
            s = 'A'
        nb = self.alpha('ID')
        while len(s) < mn:
            s += rng.choice(nb)
        if s[-1] == ' ':
            s = s[:-1] + 'Z'
        return s


def syn_ok(note, present):
    t = note[0]
    idx = [int(note[i:i + 2]) for i in range(1, len(note) - 1, 2)]
    p = [present(i) for i in idx]
    if t == 'P':
        return all(p) or not any(p)
    if t == 'R':
        return any(p)
    if t == 'E':
        return sum(p) <= 1
    if t == 'C':
        return (not p[0]) or all(p[1:])
    if t == 'L':
        return (not p[0]) or any(p[1:])
    return True


def choose_presence(rng, seg, fill):
    kids = seg.children
    req = set(k.seq for k in kids if k.usage == 'R')
    opt = [k.seq for k in kids if k.usage == 'S' and (k.kind == 'ele' or any(s.usage != 'N' for s in k.children))]
    for attempt in range(200):
        if attempt < 150:
            pres = set(req) | set(s for s in opt if rng.random() < fill)
        else:
            pres = (set(req) | set(opt)) if attempt % 2 else set(req)
        if pres and all(syn_ok(n, lambda i: i in pres) for n in seg.syntax):
            return pres
    return None


def quals_of(segnode):
    """all qualifier tests (AND) a data segment must pass to match this node: [((ele, sub), codes)]"""
    k = segnode.children
    out = []
    if not k:
        return out
    f = k[0]

    def dt(e):
        return DE().get(e.data_ele, ('?',))[0]
    if f.kind == 'ele' and dt(f) == 'ID' and f.usage == 'R' and f.codes:
        out.append(((1, None), f.codes))
    if segnode.id == 'ENT' and len(k) > 1 and k[1].kind == 'ele' and dt(k[1]) == 'ID' and k[1].codes:
        out.append(((2, None), k[1].codes))
    if f.kind == 'comp' and f.children and f.children[0].codes and (dt(f.children[0]) == 'ID' or (segnode.id == 'CTX' and dt(f.children[0]) == 'AN')):
        out.append(((1, 1), f.children[0].codes))
    if segnode.id == 'HL' and len(k) > 2 and k[2].kind == 'ele' and k[2].codes:
        out.append(((3, None), k[2].codes))
    return out


def val_at(vals, pos):
    e, sub = pos
    if e > len(vals):
        return None
    v = vals[e - 1]
    if isinstance(v, list):
        if sub is None:
            return ':'.join(v)
        return v[sub - 1] if sub <= len(v) else None
    if sub is None or sub == 1:
        return v
    return None


def node_matches(cand, seg_id, vals):
    if cand.id != seg_id:
        return False
    for pos, codes in quals_of(cand):
        if val_at(vals, pos) not in codes:
            return False
    return True


def entry_segs(loop):
    if not loop.children:
        return
    fc = loop.children[0]
    if fc.kind == 'seg':
        yield fc
    else:
        for c in loop.children:
            if c.kind == 'loop':
                for x in entry_segs(c):
                    yield x


def candidates(P):
    """map nodes in the order the positional matcher would try them, starting from the last matched node P"""
    node = P.parent
    pos = P.pos
    while True:
        for child in node.children:
            if child.pos < pos:
                continue
            if child.kind == 'seg':
                yield child
            else:
                for x in entry_segs(child):
                    yield x
        if node.kind == 'root':
            return
        pos = node.pos
        node = node.parent


def first_match(P, seg_id, vals):
    for c in candidates(P):
        if node_matches(c, seg_id, vals):
            return c
    return None


class Shadowed(Exception):
    pass


class Rec(object):
    __slots__ = ('node', 'vals', 'chain')

    def __init__(self, node, vals, chain):
        self.node = node
        self.vals = vals
        self.chain = chain

    def loop_path(self):
        return [l.id for (l, i) in self.chain]


ISA_QUALIFIERS = ['ZZ', '01', '14', '20', '27', '28', '29', '30', '33']


class Doc(object):
    def __init__(self):
        self.recs = []
        self.entry = None
        self.mapfile = None
        self.shadowed = {}
        self.charset = 'B'
        self.meta = {}

    def text(self, seg_t='~', ele_t='*', sub_t=':', eol='\n'):
        lines = []
        for r in self.recs:
            vals = r.vals
            if r.node.id == 'ISA' and len(vals) >= 16:
                vals = list(vals)
                vals[15] = sub_t
            lines.append(render_seg(r.node.id, vals, seg_t, ele_t, sub_t))
        return eol.join(lines) + eol

    def segments(self):
        """[(id, [elements: list of component lists])] in normal form"""
        return [norm(r.node.id, r.vals) for r in self.recs]


def add_ta1(doc, where='after-isa'):
    """a copy of doc with an interchange acknowledgement segment in every interchange: right after the ISA (its canonical place), or,
    where='before-iea', after the last group"""
    d = Doc()
    d.entry, d.mapfile, d.charset, d.meta, d.shadowed = doc.entry, doc.mapfile, doc.charset, dict(doc.meta), doc.shadowed
    d.meta['ta1'] = where
    for r in doc.recs:
        if r.node.id == 'IEA' and where == 'before-iea':
            isa_loop = r.chain[0][0]
            ta1 = [c for c in isa_loop.children if c.id == 'TA1'][0]
            d.recs.append(Rec(ta1, [isa_ctl, '240101', '1200', 'A', '000'], list(r.chain[:1])))
        d.recs.append(Rec(r.node, copy.deepcopy(r.vals), list(r.chain)))
        if r.node.id == 'GE' and where == 'between-groups' and not placed:
            # after the first group (between two groups when the interchange has several)
            isa_loop = r.chain[0][0]
            ta1 = [c for c in isa_loop.children if c.id == 'TA1'][0]
            d.recs.append(Rec(ta1, [isa_ctl, '240101', '1200', 'A', '000'], list(r.chain[:1])))
            placed = True
        if r.node.id == 'ISA':
            isa_ctl = r.vals[12]
            placed = False
            if where == 'after-isa':
                isa_loop = r.chain[0][0]
                ta1 = [c for c in isa_loop.children if c.id == 'TA1'][0]
                d.recs.append(Rec(ta1, [isa_ctl, '240101', '1200', 'A', '000'], list(r.chain[:1])))
    return d


def concat_docs(docs):
    """one file holding the interchanges of several generated documents, in order (they must have been generated from different map objects or
    be used by checks that do not compare loop instances across them)"""
    d = Doc()
    d.entry, d.mapfile, d.charset = docs[0].entry, '+'.join(x.mapfile for x in docs), docs[0].charset
    d.meta = {'parts': [x.mapfile for x in docs], 'map': d.mapfile}
    for x in docs:
        d.recs += x.recs
    return d


def norm(sid, vals):
    els = []
    for v in vals:
        c = list(v) if isinstance(v, list) else [v]
        while len(c) > 1 and c[-1] == '':
            c.pop()
        els.append(c)
    while els and els[-1] == ['']:
        els.pop()
    return (sid, els)


def render_seg(sid, vals, seg_t='~', ele_t='*', sub_t=':'):
    parts = [sid]
    for v in vals:
        if isinstance(v, list):
            c = list(v)
            while len(c) > 1 and c[-1] == '':
                c.pop()
            parts.append(sub_t.join(c))
        else:
            parts.append(v)
    if sid != 'ISA':
        while len(parts) > 1 and parts[-1] == '':
            parts.pop()
    return ele_t.join(parts) + seg_t


class Gen(object):
    def __init__(self, root, rng, values, fill=0.5, maxrep=2, opt_prob=0.5, fill_notused=0.0):
        self.root = root
        self.rng = rng
        self.V = values
        self.fill = fill
        self.maxrep = maxrep
        self.opt_prob = opt_prob
        self.fill_notused = fill_notused
        self.out = []
        self.chain = []
        self.inst = 0
        self.hl = 0
        self.hl_stack = []
        self.lx = 0
        self.shadow = {}
        self.notused_filled = 0
        self.interleave = False
        self.force_xyx = False
        self.interleaved = 0
        self.xyx = 0

    def count_for(self, node):
        mx = node.max_repeat()
        if node.kind == 'loop' and node.type == 'wrapper':
            return 0 if node.usage == 'N' else 1
        if node.usage == 'N':
            return 0
        if node.usage == 'R':
            lo = 1
        else:
            lo = 0 if self.rng.random() > self.opt_prob else 1
        if lo == 0:
            return 0
        r = self.rng.random()
        if mx <= 5 and r < 0.15:
            return mx                      # exactly the limit when it is small
        return self.rng.randint(1, min(mx, self.maxrep))

    def seg_values(self, seg, forced=None):
        rng = self.rng
        pres = choose_presence(rng, seg, self.fill)
        if pres is None:
            return None
        vals = {}
        fmt = {'val': None, 'codes': []}      # the most recent date/time format qualifier (data element 1250)

        def one(e):
            if e.data_ele == '1250':
                v = self.V.value(e, prefer=DATE_FMTS)
                fmt['val'] = v
                return v
            if e.data_ele == '1251':
                f = fmt['val']
                if f is None:
                    known = [c for c in fmt['codes'] if c in DATE_FMTS]
                    f = known[0] if known else None
                return self.V.value(e, f)
            return self.V.value(e)

        for k in seg.children:
            if k.kind == 'ele':
                if k.data_ele == '1250':
                    fmt['codes'] = list(k.codes)
                    fmt['val'] = None
                if k.seq not in pres and not (k.usage == 'N' and rng.random() < self.fill_notused):
                    continue
                if k.usage == 'N':
                    vals[k.seq] = self.V.value(k)
                    self.notused_filled += 1
                    continue
                vals[k.seq] = one(k)
            else:
                if k.seq not in pres:
                    continue
                sub = []
                anyp = False
                for s in k.children:
                    if s.data_ele == '1250':
                        fmt['codes'] = list(s.codes)
                        fmt['val'] = None
                    if s.usage == 'R' or (s.usage == 'S' and rng.random() < self.fill):
                        sub.append(one(s))
                        anyp = True
                    else:
                        sub.append('')
                if not anyp:
                    cand = [i for i, s in enumerate(k.children) if s.usage != 'N']
                    if not cand:
                        continue
                    i = cand[0]
                    sub[i] = one(k.children[i])
                while sub and sub[-1] == '':
                    sub.pop()
                vals[k.seq] = sub
        if forced:
            vals.update(forced)
        n = max(vals) if vals else 0
        return [vals.get(i, '') for i in range(1, n + 1)]

    def emit(self, seg, forced=None):
        v = None
        for attempt in range(8):
            v = self.seg_values(seg, forced)
            if v is None:
                raise Shadowed('unsat-syntax ' + seg.path())
            if not self.out:
                break
            fm = first_match(self.out[-1].node, seg.id, v)
            if fm is seg:
                break
        else:
            self.shadow[seg.path()] = self.shadow.get(seg.path(), 0) + 1
            raise Shadowed(seg.path())
        self.out.append(Rec(seg, v, list(self.chain)))
        return v

    def gen_seg(self, seg):
        sid = seg.id
        forced = {}
        if sid == 'HL':
            self.hl += 1
            forced[1] = str(self.hl)
        if sid == 'LX':
            self.lx += 1
            forced[1] = str(self.lx)
        if sid == 'CLM':
            self.lx = 0
        return self.emit(seg, forced)

    def _fix_hl(self):
        rec = self.out[-1]
        v = rec.vals
        node = rec.node
        parent = self.hl_stack[-1] if self.hl_stack else None
        while len(v) < 2:
            v.append('')
        hl02 = node.children[1]
        if parent is not None and hl02.usage != 'N':
            v[1] = str(parent)
        else:
            v[1] = ''
        while v and v[-1] == '':
            v.pop()

    def gen_loop(self, loop):
        self.inst += 1
        self.chain.append((loop, self.inst))
        try:
            fs = loop.first_seg()
            start = 0
            is_hl = False
            if fs is not None:
                self.gen_seg(fs)
                start = 1
                if fs.id == 'HL':
                    self._fix_hl()
                    is_hl = True
                    self.hl_stack.append(self.hl)
            try:
                self.gen_children(loop.children[start:])
            finally:
                if is_hl:
                    self.hl_stack.pop()
        finally:
            self.chain.pop()

    def gen_children(self, children):
        """children in map order; with self.interleave, instances of loops that share one map position (siblings the map does
        not order, e.g. 837 2420A-2420G) are emitted in a shuffled, interleaved order"""
        if not self.interleave:
            for child in children:
                self.gen_child(child)
            return
        i = 0
        while i < len(children):
            j = i
            while j < len(children) and children[j].pos == children[i].pos:
                j += 1
            group = children[i:j]
            loops = [c for c in group if c.kind == 'loop' and c.type != 'wrapper' and c.first_seg() is not None and c.first_seg().id not in ('HL', 'LX')]
            if len(loops) >= 2 and len(loops) == len(group):
                head, rest = [], []
                for c in loops:
                    n = self.count_for(c)
                    inst = [(c, k) for k in range(n)]
                    if c.usage == 'R' and inst:
                        head.append(inst.pop(0))    # the validator wants every required sibling before it lets later ones pass
                    rest += inst
                self.rng.shuffle(rest)
                order = head + rest
                if self.force_xyx:
                    # X, Y, X: a repeatable loop with a required non-first segment, interrupted by a sibling of the same position
                    xs = [c for c in loops if c.usage != 'N' and c.max_repeat() >= 2 and any(s.kind == 'seg' and s.usage == 'R' for s in c.children[1:])]
                    ys = [c for c in loops if c.usage != 'N']
                    if xs:
                        x = self.rng.choice(xs)
                        others = [c for c in ys if c is not x and (c.usage != 'R' or c.max_repeat() >= 2)]
                        if others:
                            y = self.rng.choice(others)
                            tail = [(c, k) for (c, k) in rest if c is not x and c is not y]
                            # required siblings first (the validator insists), then what is left of the pattern, each instance once
                            pat = [(x, 0), (y, 1 if (y, 0) in head else 0), (x, 1)]
                            order = head + [o for o in pat if o not in head] + tail
                            self.xyx += 1
                done = {}
                dead = set()
                for (c, k) in order:
                    if id(c) in dead:
                        continue
                    first = id(c) not in done
                    done[id(c)] = True
                    if not self.gen_instance(c, first):
                        dead.add(id(c))
                self.interleaved += 1 if len(set(id(c) for c, k in order)) > 1 else 0
            else:
                for child in group:
                    self.gen_child(child)
            i = j

    def gen_instance(self, child, first):
        """one instance; False when it had to be dropped because it is shadowed"""
        mark = (len(self.out), self.hl, list(self.hl_stack), self.lx, list(self.chain), self.inst)
        try:
            if child.kind == 'seg':
                self.gen_seg(child)
            else:
                self.gen_loop(child)
            return True
        except Shadowed:
            del self.out[mark[0]:]
            self.hl, self.hl_stack, self.lx, self.chain = mark[1], mark[2], mark[3], mark[4]
            if child.usage == 'R' and first:
                raise
            return False

    def gen_child(self, child):
        n = self.count_for(child)
        for i in range(n):
            mark = (len(self.out), self.hl, list(self.hl_stack), self.lx, list(self.chain), self.inst)
            try:
                if child.kind == 'seg':
                    self.gen_seg(child)
                else:
                    self.gen_loop(child)
            except Shadowed:
                del self.out[mark[0]:]
                self.hl, self.hl_stack, self.lx, self.chain = mark[1], mark[2], mark[3], mark[4]
                wrapper = (child.kind == 'loop' and child.type == 'wrapper')
                if wrapper or (child.usage == 'R' and i == 0):
                    raise          # a required node (or anything inside a transparent wrapper that had to be there) is shadowed
                break


class GenFailed(Exception):
    pass


def index_entries(versions=('00401', '00501')):
    """selectable (icvn, vriic, fic, tspc, file) entries, control maps and duplicates of one file under several vriic collapsed"""
    out = []
    seen = set()
    for e in refmap.load_index():
        if e['icvn'] not in versions or not e['vriic']:
            continue
        if e['file'] in seen and e['fic'] == 'FA':
            continue
        seen.add(e['file'])
        out.append(e)
    return out


def gen_document(entry, seed, fill=0.5, maxrep=2, opt_prob=0.5, charset='B', rich=False, n_isa=1, n_gs=1, n_st=None,
                 fill_notused=0.0, forbid='~*:^', sender='SENDERID', receiver='RECEIVERID', same_parties=True, tries=12, interleave=False, force_xyx=False):
    """entry: dict(icvn, vriic, fic, tspc, file).  Retries with derived seeds when a required node is shadowed."""
    last = None
    for t in range(tries):
        rng = random.Random((seed, t).__hash__() if False else seed * 1000 + t)
        try:
            return _gen_document(entry, rng, fill, maxrep, opt_prob, charset, rich, n_isa, n_gs, n_st, fill_notused, forbid, sender, receiver, (seed, t), interleave, force_xyx)
        except Shadowed as ex:
            last = ex
            continue
    raise GenFailed('required node shadowed in every attempt: %s' % last)


def _gen_document(entry, rng, fill, maxrep, opt_prob, charset, rich, n_isa, n_gs, n_st, fill_notused, forbid, sender, receiver, seedinfo, interleave=False, force_xyx=False):
    root = load_map(entry['file'])
    V = Values(rng, charset, rich, forbid)
    g = Gen(root, rng, V, fill, maxrep, opt_prob, fill_notused)
    g.interleave = interleave or force_xyx
    g.force_xyx = force_xyx
    doc = Doc()
    doc.entry = entry
    doc.mapfile = entry['file']
    doc.charset = charset
    isa_loop = root.children[0]
    assert isa_loop.id == 'ISA_LOOP'
    isa = isa_loop.first_seg()
    gs_loop = [c for c in isa_loop.children if c.id == 'GS_LOOP'][0]
    gs = gs_loop.first_seg()
    st_loop = [c for c in gs_loop.children if c.id == 'ST_LOOP'][0]
    ge = [c for c in gs_loop.children if c.id == 'GE'][0]
    iea = [c for c in isa_loop.children if c.id == 'IEA'][0]
    icvn = entry['icvn']
    rep = 'U'
    if icvn == '00501':
        # the repetition separator must be a character the declared character set allows and no other delimiter
        cands = ('^' if charset == 'E' else '') + '!&()+,./;?='
        rep = [c for c in cands if c not in forbid or c == '^'][0]
        if rep in forbid and rep != '^':
            rep = [c for c in cands if c not in forbid][0]
    V.forbid.add(rep)
    used_isa = set()
    for ii in range(n_isa):
        g.inst += 1
        ichain = [(isa_loop, g.inst)]
        while True:
            ctl_isa = '%09d' % rng.randint(1, 999999999)
            if ctl_isa not in used_isa:
                break
        used_isa.add(ctl_isa)
        if ii == 0:
            # party id qualifiers: any pair of the defined codes, the same for all interchanges of one document (derived from the control
            # number so that the draw sequence of the generator stays what it was)
            quals = (ISA_QUALIFIERS[int(ctl_isa) % 9], ISA_QUALIFIERS[(int(ctl_isa) // 9) % 9])
        isa_vals = ['00', ' ' * 10, '00', ' ' * 10, quals[0], sender.ljust(15), quals[1], receiver.ljust(15),
                    '240102', '1230', rep, icvn, ctl_isa, '0', rng.choice(['P', 'T']), ':']
        g.out.append(Rec(isa, isa_vals, list(ichain)))
        used_gs = set()
        for gi in range(n_gs):
            g.inst += 1
            gchain = ichain + [(gs_loop, g.inst)]
            while True:
                gsctl = str(rng.randint(1, 999999999))
                if gsctl not in used_gs:
                    break
            used_gs.add(gsctl)
            g.out.append(Rec(gs, [entry['fic'], sender[:8].rstrip() or 'S', receiver[:8].rstrip() or 'R', '20240102', '1230', gsctl, 'X', entry['vriic']], list(gchain)))
            nst = n_st if n_st is not None else rng.randint(1, 2)
            for si in range(nst):
                g.hl = 0
                g.hl_stack = []
                g.lx = 0
                g.inst += 1
                g.chain = gchain + [(st_loop, g.inst)]
                start = len(g.out)
                st = st_loop.first_seg()
                stctl = '%04d' % (si + 1)
                if int(ctl_isa) % 4 == 1:
                    stctl = ['ELIG%04d', 'A%03d', '%03dX', 'SET-%04d'][int(ctl_isa) % 16 // 4] % (si + 1)     # the set control number is alphanumeric (AN 4/9)
                stv = g.seg_values(st)
                stv[1] = stctl
                g.out.append(Rec(st, stv, list(g.chain)))
                se = None
                rest = []
                for child in st_loop.children[1:]:
                    if child.kind == 'seg' and child.id == 'SE':
                        se = child
                        continue
                    rest.append(child)
                g.gen_children(rest)
                if se is None:
                    for j in range(len(g.out) - 1, start, -1):
                        if g.out[j].node.id == 'SE':
                            g.out[j].vals[:] = [str(j - start + 1), stctl]
                            break
                    else:
                        raise GenFailed('no SE in %s' % entry['file'])
                else:
                    g.out.append(Rec(se, [str(len(g.out) - start + 1), stctl], list(g.chain)))
            g.out.append(Rec(ge, [str(nst), gsctl], list(gchain)))
        g.out.append(Rec(iea, [str(n_gs), ctl_isa], list(ichain)))
    doc.recs = g.out
    doc.shadowed = dict(g.shadow)
    doc.meta = {'seed': seedinfo, 'fill': fill, 'maxrep': maxrep, 'opt_prob': opt_prob, 'charset': charset, 'rich': rich,
                'n_isa': n_isa, 'n_gs': n_gs, 'n_st': n_st, 'notused_filled': g.notused_filled, 'map': entry['file'], 'interleaved_groups': g.interleaved, 'xyx_groups': g.xyx}
    return doc
