"""Structural mutators and fuzz over tokenised documents (DESIGN 4.3).  No pyx12 import.

A document is (terms, segs) with segs = [[sid, [elements: list of component lists]]].
mutate(rng, text, n) -> (text', [mutation names])
"""
from vlib import ref_token

CANARIES = ['<i>x</i>', '<script>alert(1)</script>', '&amp;', '"onx=', "'><b>", '&lt;', '<!--', ']]>', '&#60;']
ACK_DELIMS = ['~', '*', ':', '^']
HEADERS = ('ISA', 'GS', 'ST')
TRAILERS = ('SE', 'GE', 'IEA')


def parse(text):
    terms, pieces = ref_token.tokenize(text)
    segs = []
    for p in pieces:
        if p.blank_only:
            continue
        segs.append([p.sid, [list(c) for c in p.elements]])
    return terms, segs


def render(terms, segs, eol='\n'):
    seg_t, ele_t, sub_t = terms
    out = []
    for sid, els in segs:
        if sid == 'ISA':
            out.append(ele_t.join([sid] + [c[0] if c else '' for c in els]) + seg_t)
        else:
            out.append(ele_t.join([sid] + [sub_t.join(c) for c in els]) + seg_t)
    return eol.join(out) + (eol if out else '')


def _body_idx(segs):
    return [i for i, s in enumerate(segs) if i > 0]


def m_delete(rng, terms, segs):
    idx = _body_idx(segs)
    if idx:
        del segs[rng.choice(idx)]


def m_duplicate(rng, terms, segs):
    idx = _body_idx(segs)
    if idx:
        i = rng.choice(idx)
        segs.insert(i, [segs[i][0], [list(c) for c in segs[i][1]]])


def m_swap(rng, terms, segs):
    idx = [i for i in _body_idx(segs) if i + 1 < len(segs)]
    if idx:
        i = rng.choice(idx)
        segs[i], segs[i + 1] = segs[i + 1], segs[i]


def m_move(rng, terms, segs):
    idx = _body_idx(segs)
    if len(idx) > 1:
        s = segs.pop(rng.choice(idx))
        segs.insert(rng.randint(1, len(segs)), s)


def m_retag(rng, terms, segs):
    idx = _body_idx(segs)
    if idx:
        i = rng.choice(idx)
        pool = ['ZZZ', 'X', 'ABCD', 'nm1', '', ' ', 'N1', 'NM1', 'REF', 'HL', 'LX', 'CLM', 'SE', 'GE', 'IEA', 'ST', 'GS', 'TA1', 'LS', 'LE', 'BHT', '123', 'A-1']
        pool += [s[0] for s in segs[:40]]
        segs[i][0] = rng.choice(pool)


def m_leading_blank(rng, terms, segs):
    """blanks in front of a body segment: before its id, or instead of it (the element separator then follows the blanks directly)"""
    idx = [i for i in _body_idx(segs) if segs[i][0] not in HEADERS + TRAILERS]
    if idx:
        i = rng.choice(idx)
        segs[i][0] = rng.choice([' ', '  ', ' ' + segs[i][0], '   ' + segs[i][0]])


def m_trailing_separator(rng, terms, segs):
    """one or two empty elements at the end of a body segment: the segment text ends in element separators"""
    idx = [i for i in _body_idx(segs) if segs[i][0] not in HEADERS + TRAILERS and segs[i][1]]
    if idx:
        i = rng.choice(idx)
        segs[i][1] = list(segs[i][1]) + [['']] * rng.choice([1, 1, 2])


def m_orphan_trailer(rng, terms, segs):
    t = rng.choice(TRAILERS)
    segs.insert(rng.randint(1, len(segs)), [t, [[rng.choice(['1', '0', 'X', ''])], [rng.choice(['0001', '1', '000000001', ''])]]])


def m_drop_trailers(rng, terms, segs):
    kind = rng.choice(TRAILERS + ('all',))
    segs[:] = [s for s in segs if not (s[0] == kind or (kind == 'all' and s[0] in TRAILERS))]


def m_drop_header(rng, terms, segs):
    kind = rng.choice(['GS', 'ST'])
    for i, s in enumerate(segs):
        if s[0] == kind and i > 0:
            del segs[i]
            break


# superscripts and circled digits: str.isdigit() yes, int() no; more than 4300 digits: int() refuses; signs, blanks, underscores: int() yes, isdigit() no;
# Arabic-Indic and full-width digits: both yes
HOSTILE_NUMERALS = ['\u00b2', '\u00b9\u2070', '\u2460', '\u00b2\u2070', '7' * 4400, '+5', '1_0', ' 5', '\u0663', '\uff15', '\u0be7', '5\u00b2', '\u2082']


def m_counts(rng, terms, segs):
    idx = [i for i, s in enumerate(segs) if s[0] in TRAILERS + HEADERS + ('HL', 'LX') and i > 0]
    if not idx:
        return
    i = rng.choice(idx)
    sid, els = segs[i]
    bad = rng.choice(['X', '', '-1', '0', '99999999999999999999', '1.5', ' 1', '1 ', 'ⅷ', '١', None])
    pos = {'SE': [0, 1], 'GE': [0, 1], 'IEA': [0, 1], 'GS': [5, 0, 7], 'ST': [1, 0, 2], 'HL': [0, 1, 2, 3], 'LX': [0], 'ISA': [12, 11, 13]}.get(sid, [0])
    p = rng.choice(pos)
    tag = None
    if rng.random() < 0.3:
        # text that some of Python's number tests call digits and its conversions refuse (or the other way round), in a count or number element
        bad = rng.choice(HOSTILE_NUMERALS)
        p = pos[0] if sid != 'HL' else rng.choice([0, 1])
        tag = 'counts:hostile-numeral'
    if bad is None:
        del els[p:]
    else:
        while len(els) <= p:
            els.append([''])
        els[p] = [bad]
    return tag


def m_ele_surgery(rng, terms, segs):
    idx = _body_idx(segs)
    if not idx:
        return
    i = rng.choice(idx)
    sid, els = segs[i]
    k = rng.choice(['empty', 'long', 'extra-ele', 'extra-comp', 'ackdelim', 'canary', 'ctrl', 'clear-all', 'drop-tail', 'spaces', 'nonascii', 'huge', 'typed-garbage', 'typed-garbage', 'format-qualifier'])
    used = set(terms)
    if k == 'clear-all':
        segs[i][1] = []
        return
    if k == 'drop-tail':
        if els:
            del els[rng.randint(0, len(els) - 1):]
        return
    if k == 'extra-ele':
        for _ in range(rng.choice([1, 2, 30, 120])):       # designators are two-digit: a segment with 100+ elements is beyond them
            els.append([rng.choice(['X', '', '1'])])
        return
    if k == 'format-qualifier':
        # a date/time format qualifier switched under its value: the value is then judged as another type (range without hyphen, date as time ...)
        FM = ['D8', 'RD8', 'DT', 'TM', 'D6']
        cand = [(a, b) for a, s2 in enumerate(segs) for b, e2 in enumerate(s2[1]) if e2 and e2[0] in FM and a > 0]
        if cand:
            a, b = rng.choice(cand)
            segs[a][1][b] = [rng.choice([f for f in FM if f != segs[a][1][b][0]])]
        return
    if not els:
        els.append([''])
    j = rng.randint(0, len(els) - 1)
    if k == 'typed-garbage':
        # values that are nearly dates, ranges, times and numbers: the recognisers' edge cases, wherever they land
        els[j] = [rng.choice(['20070301', '2007030', '-', '--', '1-2', '20070301-', '-20070301', '20070301-20070302-20070303', '2400', '2561', '.', '-.', '1.2.3', '99999999',
                              '00000000', '000000', '0', '200703011260', '20070301126', '-0', '+1', '1e5', ' 1', '1 ', '０１', '²', '\u0661\u0662', 'NaN', '१२३'])]
        return
    if k == 'empty':
        els[j] = ['']
    elif k == 'long':
        els[j] = ['A' * rng.choice([36, 81, 257, 1000])]
    elif k == 'huge':
        els[j] = ['B' * rng.choice([8200, 16500])]
    elif k == 'extra-comp':
        els[j] = list(els[j]) + [rng.choice(['X', '', '1'])] * rng.choice([1, 2, 9])
    elif k == 'ackdelim':
        d = ''.join(c for c in rng.sample(ACK_DELIMS, 2) if c not in used)
        els[j] = [(els[j][0] if els[j] else '') + d + 'Q']
    elif k == 'canary':
        c = rng.choice(CANARIES)
        c = ''.join(ch for ch in c if ch not in used)
        els[j] = [c]
    elif k == 'ctrl':
        els[j] = [(els[j][0] if els[j] else 'A') + rng.choice(['\x07', '\t', '\x00', '\x1b', '\x7f'])]
    elif k == 'spaces':
        els[j] = [rng.choice(['   ', ' A', 'A  ', ' '])]
    elif k == 'nonascii':
        els[j] = [rng.choice(['é', 'Ω', '日本', '퟿', 'ß'])]


def m_component_cut(rng, terms, segs):
    """a composite that stops early: its last component(s) left off (two or more stay when there were three), or cut to one component and a
    trailing separator"""
    cand = [(i, j) for i, s in enumerate(segs) if s[0] not in HEADERS + TRAILERS for j, e in enumerate(s[1]) if len(e) >= 2]
    if not cand:
        return
    i, j = rng.choice(cand)
    e = segs[i][1][j]
    if len(e) >= 3 and rng.random() < 0.6:
        segs[i][1][j] = e[:rng.randint(2, len(e) - 1)]
    else:
        segs[i][1][j] = [e[0], '']
    return 'component-cut'


def m_renumber(rng, terms, segs):
    for s in segs:
        if s[0] in ('HL', 'LX') and rng.random() < 0.5 and s[1]:
            s[1][0] = [rng.choice(['0', '7', 'A', '', '01'])]


MUTATORS = [('delete', m_delete), ('duplicate', m_duplicate), ('swap', m_swap), ('move', m_move), ('retag', m_retag),
            ('orphan-trailer', m_orphan_trailer), ('drop-trailers', m_drop_trailers), ('drop-header', m_drop_header), ('counts', m_counts),
            ('ele-surgery', m_ele_surgery), ('ele-surgery', m_ele_surgery), ('renumber', m_renumber), ('leading-blank', m_leading_blank), ('trailing-separator', m_trailing_separator), ('component-cut', m_component_cut)]


def mutate(rng, text, n=None, eol='\n'):
    terms, segs = parse(text)
    names = []
    n = n or rng.randint(1, 4)
    for _ in range(n):
        name, fn = rng.choice(MUTATORS)
        tag = fn(rng, terms, segs)
        names.append(tag if isinstance(tag, str) else name)
    out = render(terms, segs, eol)
    r = rng.random()
    if r < 0.08 and len(out) > 10:
        cut = rng.randint(0, len(out))
        out = out[:cut]
        names.append('truncate@%d' % cut)
    elif r < 0.11:
        k = rng.randint(0, len(out))
        out = out[:k] + terms[0] + terms[0] + out[k:]
        names.append('empty-segment')
    elif r < 0.13:
        k = rng.randint(106, max(106, len(out)))
        out = out[:k] + '   ' + terms[0] + out[k:]
        names.append('blank-segment')
    return out, names


def envelope_soup(rng, icvn=None):
    """a well-formed ISA followed by 3-16 envelope and body segments in ARBITRARY order (headers never closed, trailers never opened, a set after
    the interchange ended, a second ISA inside a set ...): every state of the readers' envelope stack, not only those one mutation away from a
    valid document. Control numbers and counts come from small pools so that they sometimes agree."""
    from vlib import ref_envelope as RE
    icvn = icvn or rng.choice(['00401', '00501'])
    ver = '004010X098A1' if icvn == '00401' else '005010X222A1'
    ids = ['1', '2', '0001', '0002', '000000007', '', 'X']
    cnt = ['0', '1', '2', '3', '', 'X']

    def isa():
        return 'ISA*' + '*'.join(RE.isa_elements(rng.choice(['000000007', '000000008']), icvn))
    toks = [lambda: isa(),
            lambda: 'GS*HC*S*R*20240102*1230*%s*X*%s' % (rng.choice(ids), ver),
            lambda: 'ST*837*%s%s' % (rng.choice(ids), ('*' + ver) if icvn == '00501' and rng.random() < 0.7 else ''),
            lambda: 'BHT*0019*00*1*20240102*1230*CH', lambda: 'HL*%s**20*1' % rng.choice(['1', '2', 'X']), lambda: 'NM1*41*2*X*****46*1', lambda: 'LX*%s' % rng.choice(['1', '2']),
            lambda: 'SE*%s*%s' % (rng.choice(cnt), rng.choice(ids)), lambda: 'GE*%s*%s' % (rng.choice(cnt), rng.choice(ids)), lambda: 'IEA*%s*%s' % (rng.choice(cnt), rng.choice(ids)),
            lambda: rng.choice(['SE', 'GE', 'IEA', 'ST', 'GS', 'TA1*000000007*240102*1230*A*000'])]
    weights = [1, 3, 4, 2, 1, 1, 1, 4, 4, 3, 1]
    out = [isa()]
    for _ in range(rng.randint(3, 16)):
        out.append(rng.choices(toks, weights)[0]())
    return '~\n'.join(out) + '~\n'


def fuzz_string(rng):
    k = rng.choice(['empty', 'short', 'isa-only', 'isa-short', 'printable', 'x12ish', 'isa-bad-version', 'isa-then-garbage', 'not-isa', 'isa-lowercase'])
    isa = 'ISA*00*          *00*          *ZZ*SENDER         *ZZ*RECEIVER       *040608*1333*U*00401*000000001*0*P*:~'
    if k == 'empty':
        return '', k
    if k == 'short':
        return rng.choice(['I', 'IS', 'ISA', 'ISA*', 'ISA*00', '\n', ' ', '~']), k
    if k == 'isa-only':
        return isa + rng.choice(['', '\n', '~', 'IEA*0*000000001~']), k
    if k == 'isa-short':
        return isa[:rng.randint(3, 105)], k
    if k == 'isa-bad-version':
        return isa.replace('00401', rng.choice(['00400', '00502', '     ', 'ABCDE'])) + 'GS*HC*A*B*20040608*1333*1*X*004010X098A1~', k
    if k == 'printable':
        return ''.join(chr(rng.randint(32, 126)) for _ in range(rng.randint(1, 400))), k
    if k == 'not-isa':
        return 'GS*HC*A*B*20040608*1333*1*X*004010X098A1~ST*837*0001~SE*2*0001~GE*1*1~', k
    if k == 'isa-lowercase':
        return isa.lower(), k
    if k == 'isa-then-garbage':
        return isa + ''.join(rng.choice('ABCNM1REFHLSTSEGEIEA0123456789*~:\n ') for _ in range(rng.randint(1, 300))), k
    # x12ish
    n = rng.randint(1, 30)
    out = [isa]
    ids = ['GS', 'ST', 'SE', 'GE', 'IEA', 'ISA', 'BHT', 'NM1', 'HL', 'REF', 'CLM', 'LX', 'SV1', 'DTP', 'N1', 'TA1', 'AK1', 'AK2', 'AK9']
    for _ in range(n):
        sid = rng.choice(ids)
        out.append(sid + ''.join('*' + ''.join(rng.choice('ABC019: -.') for _ in range(rng.randint(0, 6))) for _ in range(rng.randint(0, 17))) + '~')
    return ''.join(out), k
