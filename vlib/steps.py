"""Logical step budget (C07): counts Python function entries with sys.monitoring; exceeding the budget is the
deterministic stand-in for 'does not terminate'.  The wall-clock watchdog of the runner is separate and only ever
yields 'inconclusive'."""
import sys


class StepBudgetExceeded(BaseException):
    pass


class Budget(object):
    def __init__(self):
        self.count = 0
        self.limit = None
        self.on = False
        self.mon = getattr(sys, 'monitoring', None)
        self.tool = None

    def _cb(self, code, offset):
        self.count += 1
        if self.limit is not None and self.count > self.limit:
            raise StepBudgetExceeded('more than %d function entries' % self.limit)

    def start(self, limit):
        self.count = 0
        self.limit = limit
        if self.mon is None:
            return
        if self.tool is None:
            self.tool = self.mon.PROFILER_ID
            try:
                self.mon.use_tool_id(self.tool, 'verif-steps')
            except ValueError:
                pass
            self.mon.register_callback(self.tool, self.mon.events.PY_START, self._cb)
        self.mon.set_events(self.tool, self.mon.events.PY_START)
        self.on = True

    def stop(self):
        if self.mon is not None and self.on:
            self.mon.set_events(self.tool, 0)
        self.on = False
        self.limit = None
        return self.count
