"""Source streams for the reader: chunked / short-read text streams (legal for io.TextIOBase.read: 'at most size')."""
import io


class ChunkStream(object):
    """Returns at most `chunk` characters per read() (fixed size), or sizes drawn from an rng."""
    closed = False

    def __init__(self, text, chunk=None, rng=None, log=None):
        self.text = text
        self.pos = 0
        self.chunk = chunk
        self.rng = rng
        self.log = log if log is not None else []

    def read(self, n=-1):
        if n is None or n < 0:
            n = len(self.text) - self.pos
        k = n
        if self.chunk is not None:
            k = min(n, self.chunk)
        elif self.rng is not None and n > 0:
            k = self.rng.randint(1, n)
        out = self.text[self.pos:self.pos + k]
        self.log.append((n, len(out), self.pos))
        self.pos += len(out)
        return out

    def close(self):
        self.closed = True


class LoggedStringIO(io.StringIO):
    def __init__(self, text, log=None):
        io.StringIO.__init__(self, text)
        self.log = log if log is not None else []

    def read(self, n=-1):
        pos = self.tell()
        out = io.StringIO.read(self, n)
        self.log.append((n, len(out), pos))
        return out
