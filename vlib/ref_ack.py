"""Parser for the 997/999 text pyx12 writes (fixed delimiters ~ * :), independent of pyx12."""


def parse(text):
    segs = []
    for piece in text.split('~'):
        piece = piece.lstrip('\r\n')
        if piece == '':
            continue
        parts = piece.split('*')
        segs.append((parts[0], parts[1:]))
    return segs


class Ack(object):
    def __init__(self, text):
        self.text = text
        self.segs = parse(text)
        self.groups = []       # one per AK1: dict(ak1, sets=[dict(ak2, items=[...], ak5)], ak9)
        self.isa = None
        self.gs = None
        self.kind = None
        cur = None
        cset = None
        for sid, e in self.segs:
            if sid == 'ISA':
                self.isa = e
            elif sid == 'GS':
                self.gs = e
            elif sid == 'ST':
                self.kind = e[0] if e else None
            elif sid == 'AK1':
                cur = {'ak1': e, 'sets': [], 'ak9': None, 'loose': []}
                self.groups.append(cur)
                cset = None
            elif sid == 'AK2' and cur is not None:
                cset = {'ak2': e, 'items': [], 'ak5': None}
                cur['sets'].append(cset)
            elif sid in ('AK3', 'IK3', 'AK4', 'IK4', 'CTX'):
                if cset is not None:
                    cset['items'].append((sid, e))
                elif cur is not None:
                    cur['loose'].append((sid, e))
            elif sid in ('AK5', 'IK5') and cset is not None:
                cset['ak5'] = e
                cset = None
            elif sid == 'AK9' and cur is not None:
                cur['ak9'] = e

    def complete(self):
        return bool(self.segs) and self.segs[0][0] == 'ISA' and self.segs[-1][0] == 'IEA'

    def all_accepted(self):
        if not self.groups:
            return False
        for g in self.groups:
            if not g['ak9'] or g['ak9'][0] != 'A':
                return False
            for s in g['sets']:
                if not s['ak5'] or s['ak5'][0] != 'A':
                    return False
        return True
