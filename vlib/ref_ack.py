"""Parser for the 997/999 text pyx12 writes (fixed delimiters ~ * :), independent of pyx12."""


def parse(text):
    segs = []
    for piece in text.split('~'):
        piece = piece.lstrip('\r\n')
        if piece == '':
            continue
        parts = piece.split('*')
        segs.append((parts[0], parts[1:]))
    return segs


class Ack(object):
    def __init__(self, text):
        self.text = text
        self.segs = parse(text)
        self.groups = []       # one per AK1: dict(ak1, sets=[dict(ak2, items=[...], ak5)], ak9)
        self.isa = None
        self.gs = None
        self.kind = None
        cur = None
        cset = None
        for sid, e in self.segs:
            if sid == 'ISA':
                self.isa = e
            elif sid == 'GS':
                self.gs = e
            elif sid == 'ST':
                self.kind = e[0] if e else None
            elif sid == 'AK1':
                cur = {'ak1': e, 'sets': [], 'ak9': None, 'loose': []}
                self.groups.append(cur)
                cset = None
            elif sid == 'AK2' and cur is not None:
                cset = {'ak2': e, 'items': [], 'ak5': None}
                cur['sets'].append(cset)
            elif sid in ('AK3', 'IK3', 'AK4', 'IK4', 'CTX'):
                if cset is not None:
                    cset['items'].append((sid, e))
                elif cur is not None:
                    cur['loose'].append((sid, e))
            elif sid in ('AK5', 'IK5') and cset is not None:
                cset['ak5'] = e
                cset = None
            elif sid == 'AK9' and cur is not None:
                cur['ak9'] = e

    def complete(self):
        return bool(self.segs) and self.segs[0][0] == 'ISA' and self.segs[-1][0] == 'IEA'

    def all_accepted(self):
        if not self.groups:
            return False
        for g in self.groups:
            if not g['ak9'] or g['ak9'][0] != 'A':
                return False
            for s in g['sets']:
                if not s['ak5'] or s['ak5'][0] != 'A':
                    return False
        return True


def shape_error(segs):
    """None when the segment ids spell  ISA GS (ST AK1 (AK2 ((AK3|IK3) (CTX)* ((AK4|IK4) (CTX)*)*)* (AK5|IK5))* AK9 SE)+ GE [TA1] IEA  -
    the grammar of a 997 / 999 - else a short description of the first place where they do not"""
    ids = [s for s, e in segs]
    i = 0

    def at(k):
        return ids[k] if k < len(ids) else None
    if at(0) != 'ISA' or at(1) != 'GS':
        return 'does not start with ISA GS'
    i = 2
    nst = 0
    while at(i) == 'ST':
        nst += 1
        i += 1
        if at(i) != 'AK1':
            return 'ST not followed by AK1 (segment %d: %s)' % (i + 1, at(i))
        i += 1
        while at(i) == 'AK2':
            i += 1
            while at(i) in ('AK3', 'IK3'):
                i += 1
                while at(i) == 'CTX':
                    i += 1
                while at(i) in ('AK4', 'IK4'):
                    i += 1
                    while at(i) == 'CTX':
                        i += 1
            if at(i) not in ('AK5', 'IK5'):
                return 'AK2 loop not closed by AK5/IK5 (segment %d: %s)' % (i + 1, at(i))
            i += 1
        if at(i) != 'AK9':
            return 'no AK9 where the AK2 loops end (segment %d: %s)' % (i + 1, at(i))
        i += 1
        if at(i) != 'SE':
            return 'AK9 not followed by SE (segment %d: %s)' % (i + 1, at(i))
        i += 1
    if nst == 0:
        return 'no transaction set (segment %d: %s - an acknowledgement segment outside ST..SE?)' % (i + 1, at(i))
    if at(i) != 'GE':
        return 'after the last SE comes %s, not GE (segment %d - an acknowledgement segment outside ST..SE?)' % (at(i), i + 1)
    i += 1
    if at(i) == 'TA1':
        i += 1                 # at most one: the acknowledgement is ONE interchange, whose grammar allows a single TA1
    if at(i) != 'IEA' or i != len(ids) - 1:
        return 'does not end with GE [TA1] IEA (segment %d: %s)' % (i + 1, at(i))
    return None
