"""C01 reference tokenizer (no pyx12 import).

tokenize(text) -> (terms, [Piece]) where Piece has .sid, .elements (list of lists of component strings, exactly as
split, nothing trimmed), .leading_blank, .trailing_sep, .blank_only.
"""


class Piece(object):
    __slots__ = ('sid', 'elements', 'leading_blank', 'trailing_sep', 'blank_only', 'raw', 'lead', 'empty')

    def normal(self):
        els = []
        for comps in self.elements:
            c = list(comps)
            while len(c) > 1 and c[-1] == '':
                c.pop()
            els.append(c)
        while els and els[-1] == ['']:
            els.pop()
        return (self.sid, els)


def terms_of(text):
    return (text[105], text[3], text[104])     # segment, element, component


def tokenize(text, keep_empty=False):
    """keep_empty: also return the empty pieces (a terminator directly after a terminator / its line break) as Piece(empty=True, blank_only=True),
    for callers that re-write the text and must not lose them"""
    seg_t, ele_t, sub_t = terms_of(text)
    pieces = []
    parts = text.split(seg_t)
    parts = parts[:-1]          # what follows the last terminator is not a delimited segment
    for raw in parts:
        line = raw.lstrip('\r\n')
        if line == '':
            if keep_empty:
                p = Piece()
                p.raw, p.empty, p.blank_only, p.leading_blank, p.trailing_sep, p.lead, p.sid, p.elements = raw, True, True, False, False, '', '', []
                pieces.append(p)
            continue
        p = Piece()
        p.empty = False
        p.raw = raw
        p.leading_blank = line.startswith(' ')
        p.lead = ''
        if p.leading_blank:
            p.lead = line[:len(line) - len(line.lstrip(' '))]      # blanks only: tabs, FS/GS/RS/US ... are data or delimiters
            line = line.lstrip(' ')
        p.blank_only = (line == '')
        p.trailing_sep = (not p.blank_only) and line[-1] == ele_t
        fields = line.split(ele_t)
        p.sid = fields[0]
        if p.sid == 'ISA':
            p.elements = [[f] for f in fields[1:]]
        else:
            p.elements = [f.split(sub_t) for f in fields[1:]]
        pieces.append(p)
    return (seg_t, ele_t, sub_t), pieces


def format_normal(norm, seg_t, ele_t, sub_t):
    sid, els = norm
    return sid + ele_t + ele_t.join(sub_t.join(c) for c in els) + seg_t


def seg_id_valid(sid):
    up = 'ABCDEFGHIJKLMNOPQRSTUVWXYZ'
    return 2 <= len(sid) <= 3 and sid[0] in up and all(c in up + '0123456789' for c in sid[1:])
