"""Worker side: runs one shard of a check inside the interpreter that imports the tree under test."""
import importlib
import json
import os
import random
import sys
import traceback
import zlib


class Ctx(object):
    def __init__(self, prop, shard, nshards, seed, tier, out_path):
        self.prop = prop
        self.shard = shard
        self.nshards = nshards
        self.seed = seed
        self.tier = tier
        self.quick = (tier == 'quick')
        self._fd = open(out_path, 'w')
        self.counters = {}
        self.sets = {}
        self.rng = random.Random((seed * 1000003 + shard * 7919 + 17) & 0xffffffff)
        self._nviol = {}
        self.scratch = os.environ.get('TMPDIR', '/tmp')

    # -- sharding helpers
    def mine(self, key):
        """Deterministic partition of a domain among shards."""
        if self.nshards == 1:
            return True
        if isinstance(key, int):
            return key % self.nshards == self.shard
        return zlib.crc32(repr(key).encode('utf-8', 'surrogatepass')) % self.nshards == self.shard

    def sub_rng(self, *key):
        return random.Random(zlib.crc32(repr((self.seed,) + key).encode('utf-8', 'surrogatepass')))

    # -- event log
    def _w(self, rec):
        self._fd.write(json.dumps(rec, default=_default) + '\n')

    def case(self, n=1, sigs=(), sample=None, nt_disjoint=0):
        rec = {'t': 'case', 'n': n}
        if nt_disjoint:
            rec['nt'] = nt_disjoint
        if sigs:
            rec['sigs'] = list(sigs)
        if sample is not None:
            rec['sample'] = sample
        self._w(rec)

    def sample(self, obj):
        """emit one actual case per worker as an evidence sample (first call wins)"""
        if not getattr(self, '_sampled', False):
            self._sampled = True
            self._w({'t': 'case', 'n': 0, 'sample': obj})

    def viol(self, key, what, case=None, detail=None):
        """One oracle disagreement.  key = mechanism signature (never an input hash)."""
        c = self._nviol.get(key, 0)
        self._nviol[key] = c + 1
        self.count('_viol')
        if c < 25:   # keep logs bounded; occurrences beyond that are only counted
            self._w({'t': 'viol', 'key': key, 'what': what, 'case': case, 'detail': detail})
        else:
            self.count('_viol_suppressed:' + key)

    def count(self, name, n=1):
        self.counters[name] = self.counters.get(name, 0) + n

    def add(self, setname, value):
        self.sets.setdefault(setname, set()).add(value)

    def finish(self):
        self._w({'t': 'stat', 'counters': self.counters,
                 'sets': {k: sorted(v)[:20000] for k, v in self.sets.items()}})
        self._w({'t': 'done'})
        self._fd.close()


def _default(o):
    if isinstance(o, (set, frozenset)):
        return sorted(o, key=repr)
    if isinstance(o, bytes):
        return o.decode('latin-1')
    return repr(o)


def exc_key(e, tb=None):
    """<ExceptionType>@<innermost pyx12 module>.<function>  (no line numbers)"""
    tb = tb if tb is not None else e.__traceback__
    inner = None
    for fs in traceback.extract_tb(tb):
        fn = fs.filename.replace('\\', '/')
        if '/pyx12/' in fn and '/verif/' not in fn:
            mod = fn.split('/pyx12/')[-1][:-3].replace('/', '.')
            inner = '%s.%s' % (mod, fs.name)
    return '%s@%s' % (type(e).__name__, inner or 'outside-pyx12')


def main():
    import argparse
    ap = argparse.ArgumentParser()
    ap.add_argument('prop')
    ap.add_argument('shard', type=int)
    ap.add_argument('nshards', type=int)
    ap.add_argument('seed', type=int)
    ap.add_argument('tier')
    ap.add_argument('out')
    ap.add_argument('--replay', default=None)
    a = ap.parse_args()
    import logging
    logging.getLogger('pyx12').addHandler(logging.NullHandler())
    logging.getLogger('pyx12').propagate = False
    logging.raiseExceptions = False
    mod = importlib.import_module('checks.%s' % a.prop.lower())
    ctx = Ctx(a.prop, a.shard, a.nshards, a.seed, a.tier, a.out)
    if a.replay:
        with open(a.replay) as fd:
            rep = json.load(fd)
        mod.replay(ctx, rep['case'])
    else:
        mod.run(ctx)
    ctx.finish()


if __name__ == '__main__':
    main()
