#!/usr/bin/env python3
"""Regenerates MANIFEST.json from the table below (kept in one place so it is always schema-valid)."""
import json, os
HERE = os.path.dirname(os.path.abspath(__file__))
BASE_OFF = "cd /repo && env -u PYX12_VERIF /venv/bin/python -m pytest -ra -q -p no:cacheprovider --timeout=900 --continue-on-collection-errors"

CHECKS = {}
NOT_APPLICABLE = {}

def chk(pid, category, text, note, technique, design):
    CHECKS[pid] = dict(property_id=pid, quick_cmd='./check %s --tier quick' % pid, thorough_cmd='./check %s --tier thorough' % pid,
                       evidence_file='evidence/%s.json' % pid, replay_cmd_template='./check %s --replay {path}' % pid, engine='vlib',
                       level_claimed=dict(category=category, text=text, design_ref=design), level_note=note, technique=technique)

exec(open(os.path.join(HERE, 'manifest_table.py')).read())

ALL = ['C%02d' % i for i in range(1, 21)]
man = dict(
    version=1,
    setup_cmd='./setup.sh',
    hooks=dict(guard='PYX12_VERIF', enable='no source hooks: every probe attaches from the harness (class/alias patching, icontract record-only contracts, logging handlers, sys.monitoring); workers export PYX12_VERIF=1 for symmetry',
               baseline_off_cmd=BASE_OFF, source_commits=[], add_only=True),
    engines=[dict(name='vlib', path='vlib/', serves_properties=sorted(CHECKS),
                  kind_free_text='runtime monitoring: the real pyx12 code runs on generated / enumerated / mutated workloads in worker processes; '
                                 'independent reference models and record-only contracts observe it at the API boundary; the parent decides offline from the JSONL event logs')],
    checks=[CHECKS[p] for p in ALL if p in CHECKS],
    not_applicable=[dict(property_id=p, reason=NOT_APPLICABLE.get(p, 'check not built yet in this session; see DESIGN.md section 5 for the planned monitor')) for p in ALL if p not in CHECKS],
    notes='Verdicts are three-valued: exit 0 held on what was observed, exit 1 + VIOLATION line, exit 2 + INCONCLUSIVE line (never folded into held). known_findings.json lists genuine defects by mechanism key.',
)
json.dump(man, open(os.path.join(HERE, 'MANIFEST.json'), 'w'), indent=1)
print('checks:', sorted(CHECKS), 'n/a:', [p for p in ALL if p not in CHECKS])
