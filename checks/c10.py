"""C10 - tree editing API obeys its read/write/insert/delete/copy laws (model-based histories)."""
import io
import zlib

from vlib import gen_doc, refmap
from vlib.worker import exc_key

PROPERTY = 'C10'
LEVEL = 'exploration'
RULE = ('Loop trees are obtained with the real X12ContextReader from generated documents of several maps (837P/I/D, 835, 834, 270/271, 276/277, 278, 820) for several loop ids; a model tree '
        '(nested lists with the map node of every entry) is built from the generator\'s ground truth. Random histories of up to 30 calls over get_value / set_value / exists / count / select / '
        'first / add_segment / add_loop / add_node / delete_segment / delete_node / copy with paths derived from the tree (with and without qualifier, element and component indexes in and out of '
        'range) or garbage are applied to both; after every call the serialisation (iterate_segments) of the real tree must equal the model\'s, return values must equal the model\'s, '
        'exists/count/first/select must agree with one another, inserted nodes must keep every loop\'s children ordered by map position, invalid paths may only return None/False/0 or raise '
        'X12PathError and change nothing. copy(): edits through the copy (including ../ paths from its children) leave the original unchanged and vice versa, and an id() scan finds no '
        'Segment/Composite/Element or child list shared. non-trivial = distinct histories with >=1 mutating call.')
ASSUMPTIONS = ['qualified paths are generated only for segments whose map node has a first-element ID qualifier list (elsewhere the qualifier is ignored by design)',
               'values written contain no delimiter characters; the link from a copy\'s root to its enclosing context is not counted as shared mutable data']
REQUIRED_COUNTERS = ['ops:segment-node-qualified-path', 'ops:segment-node-qualified-path:other-qualifier', 'paths:qualifier-held-in-a-composite', 'ops:delete_segment:near-miss', 'ops:from-below', 'ops:from-below:depth-2', 'histories', 'ops:get', 'ops:set', 'ops:count', 'ops:add_segment', 'ops:add_loop', 'ops:delete_segment', 'ops:delete_node', 'ops:copy', 'ops:add_node',
                     'ops:garbage', 'serialisations-compared', 'copy:parent-path-edits']
MIN_CASES = {'quick': 1200, 'thorough': 40000}
WATCHDOG_S = {'quick': 1200, 'thorough': 7200}

MAPS = ['837.4010.X098.A1.xml', '837.5010.X222.A1.xml', '837.4010.X096.A1.xml', '835.4010.X091.A1.xml', '834.4010.X095.A1.xml', '271.4010.X092.A1.xml',
        '277.4010.X093.A1.xml', '278.4010.X094.A1.xml', '820.4010.X061.A1.xml', '837Q3.I.5010.X223.A1.xml', '835.5010.X221.A1.xml', '270.4010.X092.A1.xml',
        '997.4010.xml', '999.5010.xml']        # the 997's loops are called AK2 and AK3: ids that the path syntax reads as segment ids


class MSeg(object):
    kind = 'seg'

    def __init__(self, node, sid, els):
        self.node = node
        self.sid = sid
        self.els = els          # list of component lists

    def copy(self):
        # Segment.copy() goes through format(): trailing empty elements / components are trimmed
        els = [list(c) for c in self.norm()[1]]
        return MSeg(self.node, self.sid, els if els else [['']])      # format() of a segment without a non-empty element is 'SEG*~'

    def fmt(self):
        return gen_doc.render_seg(self.sid, [c if len(c) > 1 else c[0] for c in self.els])

    def raw(self):
        """untrimmed text: parses back to exactly the same element/component structure"""
        return self.sid + ''.join('*' + ':'.join(c) for c in self.els) + '~'

    def norm(self):
        return gen_doc.norm(self.sid, [c if len(c) > 1 else c[0] for c in self.els])

    def get(self, e, c):
        if e > len(self.els):
            return None
        comp = self.els[e - 1]
        if c is None:
            k = len(comp)
            while k > 1 and comp[k - 1] == '':
                k -= 1
            return ':'.join(comp[:k])
        if c > len(comp):
            return None
        return comp[c - 1]

    def set(self, e, c, v):
        while len(self.els) < e:
            self.els.append([''])
        if c is None:
            self.els[e - 1] = [v]
        else:
            while len(self.els[e - 1]) < c:
                self.els[e - 1].append('')
            self.els[e - 1][c - 1] = v


class MLoop(object):
    kind = 'loop'

    def __init__(self, node):
        self.node = node
        self.children = []

    def copy(self):
        m = MLoop(self.node)
        m.children = [c.copy() for c in self.children]
        return m

    def segs(self):
        out = []
        for c in self.children:
            if c.kind == 'seg':
                out.append(c)
            else:
                out += c.segs()
        return out

    def serial(self):
        return [s.norm() for s in self.segs()]


def qual_spec(node):
    """(codes, element position, component position) of the ID qualifier a qualified path SEG[code] is compared with: the required first
    element, ENT02, the first component of a composite first element, HL03 - or None when the node has no such qualifier"""
    k = node.children

    def is_id(n):
        return gen_doc.DE().get(n.data_ele, ('?',))[0] == 'ID'
    if not k:
        return None
    if k[0].kind == 'ele' and is_id(k[0]) and k[0].usage == 'R' and k[0].codes:
        return (k[0].codes, 1, None)
    if node.id == 'ENT' and len(k) > 1 and k[1].kind == 'ele' and is_id(k[1]) and k[1].codes:
        return (k[1].codes, 2, None)
    if k[0].kind == 'comp' and k[0].children and is_id(k[0].children[0]) and k[0].children[0].codes:
        return (k[0].children[0].codes, 1, 1)
    if node.id == 'HL' and len(k) > 2 and k[2].kind == 'ele' and k[2].codes:
        return (k[2].codes, 3, None)
    return None


def qual_of(node):
    """(codes) when the map node matches on an ID qualifier, else None"""
    q = qual_spec(node)
    return q[0] if q is not None else None


def seg_matches(ms, sid, qual):
    """model of is_match_qual for the path kinds we generate"""
    if ms.sid != sid:
        return False
    if qual is None:
        return True
    q = qual_spec(ms.node)
    if q is not None:
        return qual in q[0] and ms.get(q[1], q[2]) == qual
    return True     # no qualifier on this node (only generated for qualifier nodes; kept for completeness)


def m_select(loop, loop_ids, sid, qual):
    """all matching nodes in the order the API enumerates them"""
    out = []
    if not loop_ids:
        for c in loop.children:
            if c.kind == 'seg':
                if sid is not None and seg_matches(c, sid, qual):
                    out.append(c)
            elif sid is not None and c.node.id == sid:
                out.append(c)
        return out
    for c in loop.children:
        if c.kind == 'loop' and c.node.id == loop_ids[0]:
            if len(loop_ids) == 1 and sid is None:
                out.append(c)
            else:
                out += m_select(c, loop_ids[1:], sid, qual)
    return out


def m_first_segment(loop, loop_ids, sid, qual):
    """model of get_first_matching_segment: only the FIRST loop of each id is entered"""
    cur = loop
    for lid in loop_ids:
        nxt = None
        for c in cur.children:
            if c.kind == 'loop' and c.node.id == lid:
                nxt = c
                break
        if nxt is None:
            return None
        cur = nxt
    for c in cur.children:
        if c.kind == 'seg' and seg_matches(c, sid, qual):
            return c
    return None


def insert_idx(mloop, node):
    idx = None
    for i, c in enumerate(mloop.children):
        if c.node.pos <= node.pos:
            idx = i
    return idx + 1 if idx is not None else 0


def child_seg_node(loopnode, sid, vals):
    for c in loopnode.children:
        if c.kind == 'seg' and gen_doc.node_matches(c, sid, vals):
            return c
    return None


def loop_first_match(loopnode, sid, vals):
    if not loopnode.children:
        return False
    f = loopnode.children[0]
    if f.kind == 'loop':
        return loop_first_match(f, sid, vals)
    return gen_doc.node_matches(f, sid, vals)


def child_loop_node(loopnode, sid, vals):
    for c in loopnode.children:
        if c.kind == 'loop' and loop_first_match(c, sid, vals):
            return c
    return None


def build_model(recs, L):
    """model tree for the recs of one tree (all carry L in their chain)"""
    d = [l.id for (l, n) in recs[0].chain].index(L)
    root = MLoop(recs[0].chain[d][0])
    cur = {(): root}
    for r in recs:
        below = r.chain[d + 1:]
        parent = root
        key = ()
        for (l, n) in below:
            key = key + ((id(l), n),)
            if key not in cur:
                m = MLoop(l)
                parent.children.append(m)
                cur[key] = m
            parent = cur[key]
        els = [list(v) if isinstance(v, list) else [v] for v in r.vals]
        parent.children.append(MSeg(r.node, r.node.id, els))
    return root


def real_serial(node):
    out = []
    for d in node.iterate_segments():
        sd = d['segment']
        els = [[e.get_value() for e in c.elements] for c in sd.elements]
        out.append(gen_doc.norm(sd.get_seg_id(), [c if len(c) > 1 else c[0] for c in els]))
    return out


def real_children_sorted(node):
    """every loop's live children ordered by map position"""
    kids = [c for c in node.children if c.type is not None]
    pos = [c.x12_map_node.pos for c in kids]
    if pos != sorted(pos):
        return False
    return all(real_children_sorted(c) for c in kids if c.type == 'loop')


def dump_positions(node, depth=0):
    out = []
    for c in node.children:
        if c.type is None:
            out.append('tombstone')
        elif c.type == 'seg':
            out.append('%s@%s' % (c.x12_map_node.id, c.x12_map_node.pos))
        else:
            out.append(['%s@%s' % (c.x12_map_node.id, c.x12_map_node.pos)] + (dump_positions(c, depth + 1) if depth < 3 else []))
    return out


def loop_paths(mroot):
    """[(loop id path tuple, MLoop)] for every loop below the root (first of each path only listed once per distinct path)"""
    out = []

    def rec(m, path):
        for c in m.children:
            if c.kind == 'loop':
                out.append((path + (c.node.id,), c))
                rec(c, path + (c.node.id,))
    rec(mroot, ())
    return out


class History(object):
    def __init__(self, ctx, rng, real, model, case):
        self.ctx = ctx
        self.rng = rng
        self.real = real
        self.model = model
        self.case = case
        self.ops = []
        self.mutating = 0
        self.failed = False
        self.gen = gen_doc.Gen(None, rng, gen_doc.Values(rng, 'E', False, '~*:^'), fill=0.4)

    def viol(self, key, what, detail=None):
        self.failed = True
        self.ctx.viol('tree:' + key, what, dict(self.case, ops=self.ops[-12:]), detail)

    def compare(self, real=None, model=None, tag=''):
        real = self.real if real is None else real
        model = self.model if model is None else model
        self.ctx.count('serialisations-compared')
        try:
            a = real_serial(real)
        except Exception as ex:
            self.viol('serialise:%s' % exc_key(ex), 'iterate_segments raised after an edit', {'exc': repr(ex)[:200]})
            return False
        b = model.serial()
        if a != b:
            k = next((i for i, (x, y) in enumerate(zip(a + [None], b + [None])) if x != y), None)
            op = self.ops[-1][0] if self.ops else 'initial'
            self.viol('serialisation-differs:after-%s%s' % (op, tag), 'the serialised tree differs from the model after the call', {'index': k, 'real': a[k] if k is not None and k < len(a) else None,
                                                                                                                              'model': b[k] if k is not None and k < len(b) else None, 'len': [len(a), len(b)]})
            return False
        return True

    # ---- path pieces
    def pick_loop(self):
        lp = loop_paths(self.model)
        if not lp or self.rng.random() < 0.3:
            return (), self.model
        p, m = self.rng.choice(lp)
        # the API resolves a loop path to the FIRST match at each level for get/set and to all matches for select
        return p, m

    def pick_seg_path(self, want_qual=None):
        p, m0 = self.pick_loop()
        sel = m_select(self.model, list(p), None, None) if p else [self.model]
        # choose a segment id present in any of the loops that path selects
        segs = [c for lp in sel for c in lp.children if c.kind == 'seg']
        if not segs:
            return None
        s = self.rng.choice(segs)
        qual = None
        q = qual_spec(s.node)
        codes = q[0] if q is not None else None
        if codes is not None and self.rng.random() < 0.7:
            qual = s.get(q[1], q[2]) if self.rng.random() < 0.8 else self.rng.choice(codes)
            if q[2] is not None:
                self.ctx.count('paths:qualifier-held-in-a-composite')
        return p, s.sid, qual

    def path_text(self, p, sid=None, qual=None, e=None, c=None):
        last = (sid or '') + ('[%s]' % qual if qual else '') + ('%02d' % e if e else '') + ('-%d' % c if c else '')
        return '/'.join(list(p) + ([last] if last else []))

    # ---- operations
    def op_get(self):
        sp = self.pick_seg_path()
        if sp is None:
            return
        p, sid, qual = sp
        e = self.rng.choice([1, 1, 2, 3, 5, 9, 14, 30])
        c = self.rng.choice([None, None, 1, 2, 5])
        path = self.path_text(p, sid, qual, e, c)
        self.ops.append(('get', path))
        self.ctx.count('ops:get')
        ms = m_first_segment(self.model, list(p), sid, qual)
        exp = ms.get(e, c) if ms is not None else None
        try:
            got = self.real.get_value(path)
        except Exception as ex:
            self.viol('get_value:%s' % exc_key(ex), 'get_value raised on a well-formed relative path', {'exc': repr(ex)[:200], 'path': path})
            return
        if got != exp:
            self.viol('get_value:wrong-value', 'get_value differs from the model (first matching segment, element/component)', {'path': path, 'got': got, 'expected': exp})

    def op_segnode(self):
        """paths addressed to a SEGMENT node (as returned by select): SEG[q]NN answers only when the node's own qualifier is q; with another code of
        the node's list there is nothing to read and nothing to write"""
        sp = self.pick_seg_path()
        if sp is None:
            return
        p, sid, _q = sp
        path = self.path_text(p, sid, None)
        exp = m_select(self.model, list(p), sid, None)
        try:
            sel = list(self.real.select(path))
        except Exception:
            return      # op_query judges select
        if len(sel) != len(exp) or not exp:
            return
        k = self.rng.randrange(len(exp))
        rn, mn_ = sel[k], exp[k]
        q = qual_spec(mn_.node)
        if q is None or rn.type != 'seg':
            return
        own = mn_.get(q[1], q[2])
        other = [c for c in q[0] if c != own and c.isalnum() and c.isupper()]
        e = self.rng.choice([x for x in (1, 2, 3, 4) if x != q[1]])
        for code, matches in ([(own, True)] if own in q[0] else []) + ([(self.rng.choice(other), False)] if other else []):
            pth = '%s[%s]%02d' % (sid, code, e)
            self.ops.append(('segnode', path, k, pth))
            self.ctx.count('ops:segment-node-qualified-path' + ('' if matches else ':other-qualifier'))
            want = mn_.get(e, None) if matches else None
            try:
                got = rn.get_value(pth)
            except Exception as ex:
                self.viol('segnode:get_value:%s' % exc_key(ex), 'get_value on a segment node raised', {'exc': repr(ex)[:200], 'node': path, 'index': k, 'path': pth})
                return
            if (got or None) != (want or None):
                self.viol('segnode:get_value:%s' % ('wrong-value' if matches else 'answers-for-another-qualifier'), 'a qualified path on a segment node returns a value it should not',
                          {'node': path, 'index': k, 'path': pth, 'got': got, 'expected': want})
                return
            if not matches:
                try:
                    rn.set_value(pth, 'CHANGED')
                    self.viol('segnode:set_value:accepted-for-another-qualifier', 'set_value with a qualifier the segment does not carry changed it', {'node': path, 'index': k, 'path': pth})
                    return
                except Exception as ex:
                    if type(ex).__name__ != 'X12PathError':
                        self.viol('segnode:set_value:%s' % exc_key(ex), 'set_value on a segment node raised something other than X12PathError', {'exc': repr(ex)[:200], 'path': pth})
                        return

    def op_set(self):
        sp = self.pick_seg_path()
        if sp is None:
            return
        p, sid, qual = sp
        e = self.rng.choice([1, 2, 2, 3, 4, 6, 12])
        c = self.rng.choice([None, None, None, 1, 2, 4])
        v = self.rng.choice(['NEWVAL', 'X', '12', '', 'A B', 'Q9Q9'])
        ms = m_first_segment(self.model, list(p), sid, qual)
        if ms is not None and qual_spec(ms.node) is not None and e == qual_spec(ms.node)[1]:
            e = e + 1       # keep the match qualifier intact so later qualified paths stay meaningful
        if ms is not None and ms.sid in ('HL', 'LX') and e <= 3:
            e = 4
        path = self.path_text(p, sid, qual, e, c)
        self.ops.append(('set', path, v))
        self.ctx.count('ops:set')
        import pyx12.errors
        try:
            self.real.set_value(path, v)
        except pyx12.errors.X12PathError:
            if ms is not None:
                self.viol('set_value:X12PathError-on-existing', 'set_value refused a path that names an existing segment', {'path': path})
            return
        except Exception as ex:
            self.viol('set_value:%s' % exc_key(ex), 'set_value raised an undocumented exception', {'exc': repr(ex)[:200], 'path': path})
            return
        if ms is None:
            self.viol('set_value:accepted-missing-segment', 'set_value accepted a path that names no segment', {'path': path})
            return
        if c is not None and e <= len(ms.els) and len(ms.els[e - 1]) == 1 and c > 1 and False:
            pass
        ms.set(e, c, v)
        self.mutating += 1
        try:
            got = self.real.get_value(path)
        except Exception as ex:
            self.viol('get_value:%s' % exc_key(ex), 'get_value raised right after set_value on the same path', {'exc': repr(ex)[:200], 'path': path})
            return
        if got != v:
            self.viol('set-get', 'reading the path just written returns another value', {'path': path, 'got': got, 'expected': v})

    def op_query(self):
        if self.rng.random() < 0.5:
            p, m = self.pick_loop()
            if not p:
                return
            sid = qual = None
            path = self.path_text(p)
        else:
            sp = self.pick_seg_path()
            if sp is None:
                return
            p, sid, qual = sp
            path = self.path_text(p, sid, qual)
        self.ops.append(('query', path))
        self.ctx.count('ops:count')
        exp = m_select(self.model, list(p), sid, qual)
        try:
            cnt = self.real.count(path)
            ex_ = self.real.exists(path)
            sel = list(self.real.select(path))
            fst = self.real.first(path)
        except Exception as ex:
            self.viol('query:%s' % exc_key(ex), 'exists/count/select/first raised on a well-formed relative path', {'exc': repr(ex)[:200], 'path': path})
            return
        if not (cnt == len(sel) and ex_ == (cnt > 0) and (fst is not None) == (cnt > 0) and (fst is None or fst is sel[0])):
            self.viol('query:disagree', 'exists, count, first and select disagree with one another', {'path': path, 'count': cnt, 'exists': ex_, 'select': len(sel), 'first': fst is not None})
            return
        if cnt != len(exp):
            self.viol('query:count', 'count differs from the model', {'path': path, 'got': cnt, 'expected': len(exp)})
            return
        # the selected nodes are the model's, in order
        for r, m in zip(sel, exp):
            a = real_serial(r) if r.type == 'loop' else real_serial(r)
            b = m.serial() if m.kind == 'loop' else [m.norm()]
            if a != b:
                self.viol('query:select-content', 'select returned other nodes than the model', {'path': path})
                return

    def op_from_below(self):
        """the same query asked from a nested loop node with as many '../' steps as that node is deep must give what the root gives for the plain path
        (get_value, exists, count, select, first); one step too many must raise X12PathError"""
        lp = [x for x in loop_paths(self.model) if len(x[0]) >= 1]
        if not lp:
            return
        p0, m0 = self.rng.choice(lp)
        try:
            below = self.real.first('/'.join(p0))
        except Exception as ex:
            self.viol('query:%s' % exc_key(ex), 'first raised on a well-formed relative path', {'exc': repr(ex)[:200], 'path': '/'.join(p0)})
            return
        if below is None:
            return
        sp = self.pick_seg_path()
        if sp is None:
            return
        p, sid, qual = sp
        e = self.rng.choice([1, 2, 3])
        ups = '../' * len(p0)
        path = self.path_text(p, sid, qual)
        self.ops.append(('from-below', '/'.join(p0), ups + path))
        self.ctx.count('ops:from-below')
        self.ctx.count('ops:from-below:depth-%d' % min(len(p0), 3))
        import pyx12.errors
        try:
            want = (self.real.get_value(path + '%02d' % e), self.real.exists(path), self.real.count(path), [id(x) for x in self.real.select(path)], id(self.real.first(path)))
            got = (below.get_value(ups + path + '%02d' % e), below.exists(ups + path), below.count(ups + path), [id(x) for x in below.select(ups + path)], id(below.first(ups + path)))
        except Exception as ex:
            self.viol('from-below:%s' % exc_key(ex), "a path with leading '../' steps raised although it stays inside the tree", {'exc': repr(ex)[:200], 'from': '/'.join(p0), 'path': ups + path})
            return
        if got != want:
            names = ['get_value', 'exists', 'count', 'select', 'first']
            bad = [n for n, a, b in zip(names, got, want) if a != b]
            self.viol('from-below:differs:%s' % ','.join(bad), "a query through '../' steps from a nested node differs from the same query asked at the root",
                      {'from': '/'.join(p0), 'path': ups + path, 'depth': len(p0), 'got': repr(got)[:200], 'expected': repr(want)[:200]})
            return
        try:
            below.exists('../' + ups + path)
        except pyx12.errors.X12PathError:
            pass
        except Exception as ex:
            self.viol('from-below:above-root:%s' % exc_key(ex), "climbing above the root of the tree raised something other than X12PathError", {'exc': repr(ex)[:200]})
        else:
            self.viol('from-below:above-root:accepted', "a path that climbs above the root of the tree was accepted", {'from': '/'.join(p0), 'path': '../' + ups + path})

    def make_segment(self, segnode):
        vals = self.gen.seg_values(segnode)
        if vals is None:
            return None
        return vals

    def real_loop_for(self, p):
        """real node for the first loop at path p (as first() resolves it) and its model"""
        if not p:
            return self.real, self.model
        ml = m_select(self.model, list(p), None, None)
        if not ml:
            return None, None
        r = self.real.first('/'.join(p))
        return r, ml[0]

    def op_add_segment(self):
        import pyx12.segment
        import pyx12.errors
        p, m0 = self.pick_loop()
        r, m = self.real_loop_for(p)
        if r is None:
            return
        cands = [c for c in m.node.children if c.kind == 'seg' and c.usage != 'N' and c.id not in ('HL',)]
        if not cands:
            return
        sn = self.rng.choice(cands)
        vals = self.make_segment(sn)
        if vals is None:
            return
        text = gen_doc.render_seg(sn.id, vals)
        self.ops.append(('add_segment', '/'.join(p), text))
        self.ctx.count('ops:add_segment')
        exp_node = child_seg_node(m.node, sn.id, vals)
        has_seg_child = any(c.kind == 'seg' for c in m.children)
        arg = text if (has_seg_child and self.rng.random() < 0.5) else pyx12.segment.Segment(text, '~', '*', ':')
        try:
            new = r.add_segment(arg)
        except pyx12.errors.X12PathError:
            if exp_node is not None:
                self.viol('add_segment:refused', 'add_segment refused a segment that belongs to the loop', {'segment': text})
            return
        except Exception as ex:
            self.viol('add_segment:%s' % exc_key(ex), 'add_segment raised an undocumented exception', {'exc': repr(ex)[:200], 'segment': text})
            return
        if exp_node is None:
            self.viol('add_segment:accepted-foreign', 'add_segment accepted a segment that is not a member of the loop', {'segment': text})
            return
        els = [list(v) if isinstance(v, list) else [v] for v in vals]
        m.children.insert(insert_idx(m, exp_node), MSeg(exp_node, sn.id, els))
        self.mutating += 1
        if not real_children_sorted(self.real):
            self.viol('add_segment:order', 'after add_segment a loop\'s children are not ordered by map position', {'segment': text, 'children': dump_positions(self.real)})

    def op_add_loop(self):
        import pyx12.segment
        import pyx12.errors
        p, m0 = self.pick_loop()
        r, m = self.real_loop_for(p)
        if r is None:
            return
        cands = [c for c in m.node.children if c.kind == 'loop' and c.usage != 'N' and c.first_seg() is not None and c.first_seg().id not in ('HL', 'LX')]
        if not cands:
            return
        ln = self.rng.choice(cands)
        sn = ln.first_seg()
        vals = self.make_segment(sn)
        if vals is None:
            return
        text = gen_doc.render_seg(sn.id, vals)
        self.ops.append(('add_loop', '/'.join(p), text))
        self.ctx.count('ops:add_loop')
        exp_loop = child_loop_node(m.node, sn.id, vals)
        has_seg_child = any(c.kind == 'seg' for c in m.children)
        arg = text if (has_seg_child and self.rng.random() < 0.5) else pyx12.segment.Segment(text, '~', '*', ':')
        try:
            new = r.add_loop(arg)
        except pyx12.errors.X12PathError:
            if exp_loop is not None:
                self.viol('add_loop:refused', 'add_loop refused a segment that starts a child loop', {'segment': text})
            return
        except Exception as ex:
            self.viol('add_loop:%s' % exc_key(ex), 'add_loop raised an undocumented exception', {'exc': repr(ex)[:200], 'segment': text})
            return
        if exp_loop is None:
            self.viol('add_loop:accepted-foreign', 'add_loop accepted a segment that starts no child loop', {'segment': text})
            return
        nl = MLoop(exp_loop)
        els = [list(v) if isinstance(v, list) else [v] for v in vals]
        nl.children.append(MSeg(exp_loop.first_seg(), sn.id, els))
        m.children.insert(insert_idx(m, exp_loop), nl)
        self.mutating += 1
        if not real_children_sorted(self.real):
            self.viol('add_loop:order', 'after add_loop a loop\'s children are not ordered by map position', {'segment': text})

    def op_add_node(self):
        """move a copy of an existing child loop into its parent again through add_node"""
        import pyx12.errors
        lp = [(p, m) for (p, m) in loop_paths(self.model)]
        if not lp:
            return
        p, m = self.rng.choice(lp)
        sel = m_select(self.model, list(p), None, None)
        rsel = list(self.real.select('/'.join(p)))
        if not sel or len(sel) != len(rsel):
            return
        src_m, src_r = sel[0], rsel[0]
        parent_p = p[:-1]
        pr, pm = self.real_loop_for(parent_p)
        if pr is None:
            return
        wrong_parent = self.rng.random() < 0.2 and len(lp) > 1
        self.ops.append(('add_node', '/'.join(p), 'wrong-parent' if wrong_parent else 'own-parent'))
        self.ctx.count('ops:add_node')
        try:
            cp = src_r.copy()
        except Exception as ex:
            self.viol('copy:%s' % exc_key(ex), 'copy() raised', {'exc': repr(ex)[:200]})
            return
        if wrong_parent:
            # a loop that is not the map parent must refuse it
            others = [(q, mm) for (q, mm) in lp if mm.node is not pm.node and mm.node.id != pm.node.id and q != p]
            if not others:
                return
            q, om = self.rng.choice(others)
            orr, om = self.real_loop_for(q)
            if orr is None or src_m.node.parent is om.node:
                return
            try:
                orr.add_node(cp)
            except pyx12.errors.X12PathError:
                return
            except Exception as ex:
                self.viol('add_node:%s' % exc_key(ex), 'add_node raised an undocumented exception', {'exc': repr(ex)[:200]})
                return
            self.viol('add_node:accepted-foreign', 'add_node accepted a node whose map node is not a child of the loop', {'into': '/'.join(q), 'node': '/'.join(p)})
            return
        try:
            pr.add_node(cp)
        except Exception as ex:
            self.viol('add_node:%s' % exc_key(ex), 'add_node raised for a node of the right parent', {'exc': repr(ex)[:200]})
            return
        pm.children.insert(insert_idx(pm, src_m.node), src_m.copy())
        self.mutating += 1
        if not real_children_sorted(self.real):
            self.viol('add_node:order', 'after add_node a loop\'s children are not ordered by map position', {})

    def op_delete_segment(self):
        p, m0 = self.pick_loop()
        r, m = self.real_loop_for(p)
        if r is None:
            return
        kids = [c for c in m.children]
        segs = [(i, c) for i, c in enumerate(kids) if c.kind == 'seg']
        if not segs:
            return
        i, s = self.rng.choice(segs)
        text = s.raw()
        if self.rng.random() < 0.3 and s.els:
            # a near miss: the same segment with one component more, or one fewer, in one of its elements (equal as far as the shorter one goes,
            # but not the segment that is there): nothing may be deleted unless such a segment really is in the loop
            import copy as _copy
            s = _copy.deepcopy(s)
            k_ = self.rng.randrange(len(s.els))
            if len(s.els[k_]) > 1 and self.rng.random() < 0.5:
                s.els[k_] = s.els[k_][:-1]
            else:
                s.els[k_] = list(s.els[k_]) + ['X']
            text = s.raw()
            self.ctx.count('ops:delete_segment:near-miss')
        self.ops.append(('delete_segment', '/'.join(p), text))
        self.ctx.count('ops:delete_segment')
        # model: the map must know the segment in this loop; first equal segment among children[1:] goes
        known = child_seg_node(m.node, s.sid, [c if len(c) > 1 else c[0] for c in s.els]) is not None
        victim = None
        if known:
            for j in range(1, len(kids)):
                if kids[j].kind == 'seg' and kids[j].sid == s.sid and kids[j].els == s.els:
                    victim = j
                    break
        try:
            got = r.delete_segment(text)
        except Exception as ex:
            self.viol('delete_segment:%s' % exc_key(ex), 'delete_segment raised', {'exc': repr(ex)[:200], 'segment': text})
            return
        if bool(got) != (victim is not None):
            self.viol('delete_segment:result', 'delete_segment result differs from the model (first equal segment after the loop\'s first child)', {'got': got, 'expected': victim is not None, 'segment': text})
            return
        if victim is not None:
            del m.children[victim]
            self.mutating += 1

    def op_delete_node(self):
        if self.rng.random() < 0.5:
            p, m = self.pick_loop()
            if not p:
                return
            sid = qual = None
            path = self.path_text(p)
        else:
            sp = self.pick_seg_path()
            if sp is None:
                return
            p, sid, qual = sp
            path = self.path_text(p, sid, qual)
        self.ops.append(('delete_node', path))
        self.ctx.count('ops:delete_node')
        exp = m_select(self.model, list(p), sid, qual)
        try:
            got = self.real.delete_node(path)
        except Exception as ex:
            self.viol('delete_node:%s' % exc_key(ex), 'delete_node raised on a well-formed relative path', {'exc': repr(ex)[:200], 'path': path})
            return
        if bool(got) != bool(exp):
            self.viol('delete_node:result', 'delete_node result differs from the model', {'path': path, 'got': got, 'expected': bool(exp)})
            return
        if exp:
            victim = exp[0]

            def rm(l):
                for i, c in enumerate(l.children):
                    if c is victim:
                        del l.children[i]
                        return True
                    if c.kind == 'loop' and rm(c):
                        return True
                return False
            rm(self.model)
            self.mutating += 1

    def op_garbage(self):
        import pyx12.errors
        path = self.rng.choice(['ZZZ', '9999/ZZZ', 'NM1[', 'NM1[85', '../../../../..', '//', '2300//NM1', 'NM199-', '/2300', 'NM1[85]', '[85]02', '2300/02', ' ', 'nm1', 'NM1[ZZZZ]03',
                                '2300/2400/2430/SVD99-9', 'HL[20]', '../'])
        which = self.rng.choice(['get_value', 'exists', 'count', 'first', 'select', 'delete_node', 'set_value'])
        self.ops.append(('garbage', which, path))
        self.ctx.count('ops:garbage')
        before = real_serial(self.real)
        try:
            if which == 'set_value':
                res = self.real.set_value(path, 'X')
            elif which == 'select':
                res = list(self.real.select(path))
            else:
                res = getattr(self.real, which)(path)
        except pyx12.errors.X12PathError:
            res = 'X12PathError'
        except IndexError as ex:
            if 'is not a valid element index' not in str(ex):
                self.viol('garbage:%s:%s' % (which, exc_key(ex)), 'an invalid path raised something other than X12PathError', {'path': path, 'exc': repr(ex)[:200]})
                return
            res = 'IndexError(documented by Segment.get for a path without element index)'
        except Exception as ex:
            self.viol('garbage:%s:%s' % (which, exc_key(ex)), 'an invalid path raised something other than X12PathError', {'path': path, 'exc': repr(ex)[:200]})
            return
        after = real_serial(self.real)
        model_changed = False
        if which in ('delete_node', 'set_value') and after != before:
            # some "garbage" is resolvable (e.g. NM1[85] when such a segment exists): then the model must agree
            if which == 'delete_node' and res is True:
                model_changed = True
            elif which == 'set_value':
                model_changed = True
        if after != before:
            # re-derive through the model: only NM1[85]-style paths can legitimately resolve
            try:
                import pyx12.path
                xp = pyx12.path.X12Path(path)
            except Exception:
                xp = None
            if xp is not None and (xp.seg_id or xp.loop_list):       # resolvable after all (a leading '/' is ignored by the relative API)
                exp = m_select(self.model, list(xp.loop_list), xp.seg_id, xp.id_val) if (xp.seg_id or len(xp.loop_list) > 0) else []
                if not xp.seg_id and xp.loop_list:
                    exp = m_select(self.model, list(xp.loop_list), None, None)
                if which == 'delete_node' and exp:
                    victim = exp[0]
                    for l in [self.model] + [m for (q, m) in loop_paths(self.model)]:
                        if victim in l.children:
                            l.children.remove(victim)
                    self.mutating += 1
                    return
                if which == 'set_value':
                    ms = m_first_segment(self.model, list(xp.loop_list), xp.seg_id, xp.id_val)
                    if ms is not None and xp.ele_idx:
                        ms.set(xp.ele_idx, xp.subele_idx, 'X')
                        self.mutating += 1
                        return
            self.viol('garbage:changed-tree', 'a call with an invalid path changed the tree', {'path': path, 'call': which})

    def op_copy(self):
        self.ops.append(('copy',))
        self.ctx.count('ops:copy')
        try:
            cp = self.real.copy()
        except Exception as ex:
            self.viol('copy:%s' % exc_key(ex), 'copy() raised', {'exc': repr(ex)[:200]})
            return
        cm = self.model.copy()
        # identity scan
        shared = shared_objects(self.real, cp)
        if shared:
            self.viol('copy:shared-object:%s' % shared[0], 'the copy shares a mutable object with its original', {'kinds': shared[:5]})
            return
        # edit through the copy (a sub-history on the copy), the original must not move
        sub = History(self.ctx, self.rng, cp, cm, dict(self.case, on='copy'))
        sub.ops = self.ops
        for _ in range(self.rng.randint(2, 6)):
            self.rng.choice([sub.op_set, sub.op_set, sub.op_add_segment, sub.op_delete_node, sub.op_delete_segment, sub.op_add_loop])()
            if sub.failed:
                self.failed = True
                return
        # ../ edits from a child of the copy
        lp = loop_paths(cm)
        if lp:
            p, m = self.rng.choice(lp)
            if len(p) == 1:
                child = cp.first(p[0])
                ms = [c for c in cm.children if c.kind == 'seg']
                if child is not None and ms:
                    s = ms[0]
                    e = 2 if qual_of(s.node) is not None or s.sid in ('HL', 'LX') else 1
                    e = 4 if s.sid in ('HL', 'LX') else e
                    path = '../%s%02d' % (s.sid, e)
                    self.ops.append(('copy-child-set', p[0], path))
                    self.ctx.count('copy:parent-path-edits')
                    try:
                        child.set_value(path, 'VIAPARENT')
                        s.set(e, None, 'VIAPARENT')
                    except Exception as ex:
                        self.viol('copy:parent-path:%s' % exc_key(ex), 'a ../ path from a child of the copy raised', {'exc': repr(ex)[:200], 'path': path})
                        return
        if not sub.compare(tag=':copy'):
            self.failed = True
            return
        if not self.compare(tag=':original-after-copy-edits'):
            return
        # and the other way round
        self.op_set()
        if not self.failed:
            sub.compare(tag=':copy-after-original-edit')
            if sub.failed:
                self.failed = True

    def run(self, n):
        if not self.compare():
            return
        ops = [self.op_get, self.op_get, self.op_set, self.op_set, self.op_query, self.op_query, self.op_add_segment, self.op_add_segment, self.op_add_loop,
               self.op_delete_segment, self.op_delete_node, self.op_garbage, self.op_copy, self.op_add_node, self.op_from_below, self.op_from_below, self.op_segnode]
        for _ in range(n):
            self.rng.choice(ops)()
            if self.failed:
                return
            if not self.compare():
                return


def shared_objects(a, b):
    """kinds of mutable objects reachable from both trees (Segment / Composite / Element / child lists / data nodes)"""
    def collect(node, acc):
        acc[id(node)] = 'datanode'
        if isinstance(getattr(node, 'children', None), list):
            acc[id(node.children)] = 'children-list'
        sd = getattr(node, 'seg_data', None)
        if sd is not None:
            acc[id(sd)] = 'Segment'
            acc[id(sd.elements)] = 'Segment.elements'
            for comp in sd.elements:
                acc[id(comp)] = 'Composite'
                acc[id(comp.elements)] = 'Composite.elements'
                for e in comp.elements:
                    acc[id(e)] = 'Element'
        for ch in getattr(node, 'children', []) or []:
            if ch.type is not None:
                collect(ch, acc)
    x, y = {}, {}
    collect(a, x)
    collect(b, y)
    return sorted(set(x[k] for k in x if k in y))


def trees_for(doc, L):
    """[(real tree, recs of that tree)]"""
    import pyx12.x12context
    import pyx12.params
    import pyx12.error_handler
    rd = pyx12.x12context.X12ContextReader(pyx12.params.params(), pyx12.error_handler.errh_null(), io.StringIO(doc.text()))
    trees = [n for n in rd.iter_segments(L) if n.type == 'loop']
    groups = []
    cur = None
    for r in doc.recs:
        ids = [l.id for (l, n) in r.chain]
        if L in ids:
            inst = r.chain[ids.index(L)][1]
            if cur is None or cur[0] != inst:
                cur = (inst, [])
                groups.append(cur)
            cur[1].append(r)
    if len(trees) != len(groups):
        return []
    return list(zip(trees, [g[1] for g in groups]))


GEN_KW = dict(fill=0.5, opt_prob=0.7, maxrep=2, charset='E', n_st=1, n_gs=1)


def one_history(ctx, mapfile, gen_seed, L, tree_index, hkey, nops=None):
    entries = dict((e['file'], e) for e in gen_doc.index_entries())
    doc = gen_doc.gen_document(entries[mapfile], gen_seed, **GEN_KW)
    tl = trees_for(doc, L)
    real, recs = tl[tree_index]
    model = build_model(recs, L)
    rng = ctx.sub_rng(*hkey)
    case = {'map': mapfile, 'loop_id': L, 'gen_seed': gen_seed, 'tree_index': tree_index, 'tree_segments': len(recs), 'history': list(hkey)}
    h = History(ctx, rng, real, model, case)
    h.run(nops if nops is not None else rng.randint(3, 30))
    return h


def run(ctx):
    sigs = set()
    n = 0
    entries = dict((e['file'], e) for e in gen_doc.index_entries())
    nh = (1600 if ctx.quick else 48000) // ctx.nshards
    pool = []
    k = 0
    while n < nh:
        rng = ctx.sub_rng('c10', ctx.shard, k)
        k += 1
        if k > nh * 4:
            break
        if not pool:
            mapfile = MAPS[(k + ctx.shard) % len(MAPS)]
            gen_seed = rng.randrange(1 << 30)
            try:
                doc = gen_doc.gen_document(entries[mapfile], gen_seed, **GEN_KW)
            except gen_doc.GenFailed:
                continue
            if len(doc.recs) > 500:
                continue
            ids = []
            for r in doc.recs:
                for (l, nn) in r.chain:
                    if l.first_seg() is not None and l.id not in ids and l.id not in ('ISA_LOOP', 'GS_LOOP'):
                        ids.append(l.id)
            for L in rng.sample(ids, min(len(ids), 3)):
                try:
                    for ti, (t, recs) in enumerate(trees_for(doc, L)):
                        if len(recs) <= 120:
                            pool.append((mapfile, gen_seed, L, ti))
                except Exception:
                    ctx.count('tree-build-failed')   # C09 judges the reader
            rng.shuffle(pool)
            pool = pool[:10]
            continue
        mapfile, gen_seed, L, ti = pool.pop()
        try:
            h = one_history(ctx, mapfile, gen_seed, L, ti, ('c10h', ctx.shard, k))
        except gen_doc.GenFailed:
            continue
        ctx.count('histories')
        n += 1
        if h.mutating:
            sigs.add('%d:%d' % (ctx.shard, k))
        ctx.sample({'map': mapfile, 'loop_id': L, 'ops': h.ops[:8]})
    ctx.case(n=n, nt_disjoint=len(sigs))


def replay(ctx, case):
    h = one_history(ctx, case['map'], case['gen_seed'], case['loop_id'], case['tree_index'], tuple(case['history']))
    print('replayed history: %d ops, failed=%s' % (len(h.ops), h.failed))
    for o in h.ops:
        print('   ', o)
