"""C09 - the context reader partitions the document without loss, duplication or reordering."""
import io
import zlib

from vlib import gen_doc, refmap
from vlib.worker import exc_key

PROPERTY = 'C09'
LEVEL = 'exploration'
RULE = ('Generated conformant documents of every selectable map (1-2 sets, 1-2 groups, 1-2 interchanges, repeated loops, a third with the instances of same-position sibling loops interleaved) are iterated with the real X12ContextReader.iter_segments(L) for '
        'L = None, every segment-anchored loop id of the map that occurs in the document (incl. ISA_LOOP, GS_LOOP, ST_LOOP; sampled in the quick tier), and one loop id absent from the document. '
        'Oracles: the yielded nodes\' segments concatenated equal the tokenised source exactly; every tree is rooted at L and holds precisely one generated instance of L (maximal run); inside a '
        'tree each segment\'s ancestor loop ids equal its intended map path below L and child loop nodes are in bijection with generated loop instances; iterate_segments() order equals the tree '
        'order; seg_count equals the recounted position in the set and cur_line_number the ordinal in the file. non-trivial = distinct (map, L) pairs that yielded >=1 tree.')
ASSUMPTIONS = ['the intended map path and loop instance of each segment are the generator\'s ground truth',
               'position in the set is not asserted for ISA/GS/GE/IEA (they are outside any set)']
REQUIRED_COUNTERS = ['docs:set-control-number-used-twice-in-a-group', 'docs:with-TA1:after-isa', 'docs:with-TA1:before-iea', 'docs:interchanges-of-different-versions', 'docs:sibling-loops-interleaved', 'runs', 'runs:None', 'runs:absent-loop', 'trees', 'segments-compared', 'tree-segments-compared', 'runs:ISA_LOOP', 'runs:ST_LOOP']
MIN_CASES = {'quick': 800, 'thorough': 20000}
WATCHDOG_S = {'quick': 1200, 'thorough': 7200}


def walk_tree(node, anc):
    for ch in node.children:
        if ch.type == 'seg':
            yield (ch, anc)
        elif ch.type == 'loop':
            for x in walk_tree(ch, anc + [ch]):
                yield x


def judge(ctx, doc, text, L, case, sigs):
    import pyx12.x12context
    import pyx12.params
    import pyx12.error_handler
    ctx.count('runs')
    ctx.count('runs:%s' % (L if L in (None, 'ISA_LOOP', 'GS_LOOP', 'ST_LOOP') else 'loop'))
    recs = doc.recs
    want = [gen_doc.norm(r.node.id, r.vals) for r in recs]
    try:
        rd = pyx12.x12context.X12ContextReader(pyx12.params.params(), pyx12.error_handler.errh_null(), io.StringIO(text))
        nodes = list(rd.iter_segments(L))
    except Exception as ex:
        ctx.viol('context:%s' % exc_key(ex), 'iterating a conformant document with the context reader raised', case, {'exc': repr(ex)[:300]})
        return
    # flatten
    flat = []      # (norm segment, tree index or None, ancestors (list of data loop nodes), seg_count, cur_line)
    ntrees = 0
    for ni, node in enumerate(nodes):
        if node.type == 'seg':
            flat.append((node.seg_data, None, None, node.seg_count, node.cur_line_number, node))
        elif node.type == 'loop':
            ntrees += 1
            ctx.count('trees')
            try:
                root_id = node.id
            except Exception as ex:
                root_id = None
            if root_id != L:
                ctx.viol('context:tree-root', 'a yielded tree is not rooted at the requested loop', case, {'root': root_id})
                return
            order = [d['segment'] for d in node.iterate_segments()]
            walked = list(walk_tree(node, []))
            if [id(s.seg_data) for s, a in walked] != [id(s) for s in order]:
                ctx.viol('context:iterate-order', 'iterate_segments() does not follow the tree order', case, {'tree': ni})
                return
            for dn, anc in walked:
                flat.append((dn.seg_data, ni, anc, dn.seg_count, dn.cur_line_number, dn))
        else:
            ctx.viol('context:node-type', 'iter_segments yielded a node that is neither a segment nor a loop tree', case, {'type': repr(node.type)})
            return
    got = []
    for (sd, ti, anc, sc, cl, dn) in flat:
        els = [[e.get_value() for e in c.elements] for c in sd.elements]
        got.append(gen_doc.norm(sd.get_seg_id(), [c if len(c) > 1 else c[0] for c in els]))
    if got != want:
        if len(got) < len(want) and got == want[:len(got)]:
            key, what = 'context:segments-lost-at-end', 'the segments yielded stop before the end of the source (last tree never yielded)'
        elif len(got) != len(want):
            key, what = 'context:segment-count', 'the yielded segments are not the source segments (loss or duplication)'
        else:
            key, what = 'context:segment-content', 'the yielded segments differ from the source segments'
        k = next((i for i, (a, b) in enumerate(zip(got + [None], want + [None])) if a != b), None)
        ctx.viol(key + (':' + (L if L in ('ISA_LOOP', 'GS_LOOP', 'ST_LOOP') else 'inner-loop') if L else ''), what, case,
                 {'yielded': len(got), 'source': len(want), 'first_difference_at': k, 'got': got[k] if k is not None and k < len(got) else None, 'expected': want[k] if k is not None and k < len(want) else None})
        return
    # partition and structure
    x2inst = {}
    inst2x = {}
    set_start = None
    for i, ((sd, ti, anc, sc, cl, dn), r) in enumerate(zip(flat, recs)):
        ctx.count('segments-compared')
        ids = [l.id for (l, n) in r.chain]
        inside = (L is not None and L in ids)
        c2 = dict(case, segment_index=i, segment=gen_doc.render_seg(r.node.id, r.vals))
        if inside != (ti is not None):
            ctx.viol('context:partition:%s' % ('segment-of-L-yielded-alone' if inside else 'outside-segment-in-tree'),
                     'a segment is on the wrong side of a tree boundary', c2, {'intended_path': ids, 'in_tree': ti})
            return
        if inside:
            ctx.count('tree-segments-compared')
            d = ids.index(L)
            linst = (id(r.chain[d][0]), r.chain[d][1])
            kx = ('tree', ti)
            if x2inst.setdefault(kx, linst) != linst or inst2x.setdefault(linst, kx) != kx:
                ctx.viol('context:tree-instance:%s' % ('two-instances-in-one-tree' if x2inst.get(kx) != linst else 'instance-split-over-trees'),
                         'trees are not in one-to-one correspondence with instances of the requested loop', c2, {})
                return
            below = r.chain[d + 1:]
            got_ids = []
            for a in anc:
                try:
                    got_ids.append(a.id)
                except Exception:
                    got_ids.append(None)
            if got_ids != [l.id for (l, n) in below]:
                ctx.viol('context:ancestor-loops', 'inside a tree the ancestor loops of a segment do not spell its map path below the requested loop', c2,
                         {'tree': got_ids, 'expected': [l.id for (l, n) in below]})
                return
            for a, (l, n) in zip(anc, below):
                kx, ki = ('node', id(a)), (id(l), n)
                if x2inst.setdefault(kx, ki) != ki or inst2x.setdefault(ki, kx) != kx:
                    ctx.viol('context:child-loop-instance:%s' % ('merged' if x2inst.get(kx) != ki else 'split'),
                             'child loop nodes are not in one-to-one correspondence with generated loop instances', c2, {'loop': l.id})
                    return
            # parent links
            if dn.parent is None or (anc and dn.parent is not anc[-1]):
                ctx.viol('context:parent-link', 'a segment node\'s parent is not the loop node that holds it', c2, {})
                return
        # positions
        if r.node.id == 'ST':
            set_start = i
        if cl != i + 1:
            ctx.viol('context:cur-line-number', 'cur_line_number is not the ordinal of the segment in the file', c2, {'got': cl, 'expected': i + 1})
            return
        if r.node.id not in ('ISA', 'GS', 'GE', 'IEA', 'TA1') and set_start is not None:
            pos = i - set_start + 1
            if sc != pos:
                ctx.viol('context:seg-count:%s' % ('SE' if r.node.id == 'SE' else 'body'), 'seg_count is not the position of the segment in its set', c2, {'got': sc, 'expected': pos})
                if r.node.id != 'SE':
                    return
    if ntrees:
        sigs.add('%s|%s' % (doc.mapfile, L))


def dup_st(doc):
    """a content finding that leaves the structure alone: the second set of a group re-uses the control number of the first (positions within a
    set start again at every ST all the same)"""
    prev_st = None
    dup = False
    for r_ in doc.recs:
        if r_.node.id == 'GS':
            prev_st = None
        elif r_.node.id == 'ST':
            if prev_st is not None and not dup:
                old_id = r_.vals[1]
                r_.vals[1] = prev_st
                dup = old_id
            prev_st = r_.vals[1]
        elif r_.node.id == 'SE' and dup and dup is not True and r_.vals[1] == dup:
            r_.vals[1] = prev_st
            dup = True
    return bool(dup)


def loop_ids_for(doc):
    """segment-anchored loops of the map that occur in the document, in order of first occurrence"""
    seen = []
    for r in doc.recs:
        for (l, n) in r.chain:
            if l.first_seg() is not None and l.id not in seen:
                seen.append(l.id)
    return seen


def absent_loop(doc):
    root = gen_doc.load_map(doc.mapfile)
    present = set(l.id for r in doc.recs for (l, n) in r.chain)
    for n in refmap.walk(root):
        if n.kind == 'loop' and n.first_seg() is not None and n.id not in present:
            return n.id
    return 'NOSUCHLOOP'


def run(ctx):
    sigs = set()
    n = 0
    entries = [e for e in gen_doc.index_entries() if e['file'] != '841.4010.XXXC.xml']
    per_map = 7 if ctx.quick else 130
    for e in entries:
        label = e['file'] + ('/tspc=%s' % e['tspc'] if e.get('tspc') else '')
        for k in range(per_map):
            if not ctx.mine((label, k)):
                continue
            rng = ctx.sub_rng('c09', label, k)
            kw = dict(fill=[0.3, 0.6][k % 2], opt_prob=[0.5, 0.8, 1.0][k % 3], maxrep=[2, 3, 1][k % 3], charset='E', rich=False,
                      n_isa=2 if k % 4 == 3 else 1, n_gs=2 if k % 3 == 2 else 1, n_st=[2, 1][k % 2],
                      interleave=(k % 3 == 1), force_xyx=(k % 6 == 4))      # sibling loops of one map position in shuffled order (e.g. 2310B before 2310A)
            seed = zlib.crc32(repr((ctx.seed, label, k)).encode())
            try:
                doc = gen_doc.gen_document(e, seed, **kw)
            except gen_doc.GenFailed:
                ctx.count('genfailed')
                continue
            if len(doc.recs) > 700:
                ctx.count('skipped-large')
                continue
            if k % 2 == 0 and dup_st(doc):
                doc.meta['dup_st'] = True
                ctx.count('docs:set-control-number-used-twice-in-a-group')
            if k % 3 == 0 or k % 4 == 3:
                # an interchange acknowledgement segment in every interchange, after the ISA or after the last group: a segment of ISA_LOOP
                # that belongs to no group
                where = 'before-iea' if k % 6 == 0 else ('between-groups' if k % 12 == 9 else 'after-isa')
                doc = gen_doc.add_ta1(doc, where)
                ctx.count('docs:with-TA1:' + where)
            text = doc.text()
            if doc.meta.get('interleaved_groups'):
                ctx.count('docs:sibling-loops-interleaved')
            ids = loop_ids_for(doc)
            if ctx.quick and len(ids) > 9:
                inner = [x for x in ids if x not in ('ISA_LOOP', 'GS_LOOP', 'ST_LOOP')]
                ids = ['ISA_LOOP', 'GS_LOOP', 'ST_LOOP'] + rng.sample(inner, 6)
            for L in [None] + ids + ['<absent>']:
                if L == '<absent>':
                    L = absent_loop(doc)
                    ctx.count('runs:absent-loop')
                case = {'map': e['file'], 'entry': e, 'gen_seed': seed, 'params': kw, 'loop_id': L, 'ta1': doc.meta.get('ta1'), 'dup_st': doc.meta.get('dup_st')}
                judge(ctx, doc, text, L, case, sigs)
                n += 1
            ctx.sample({'map': label, 'loop_ids': ids, 'segments': len(doc.recs), 'text_head': text[:300]})
    # files whose interchanges differ in version and type (00401 then 00501 or the other way round): the reader must pick the map again at every ISA / GS
    for k, e in enumerate(entries):
        if not ctx.mine(('mixed', e['file'], e.get('tspc'))):
            continue
        others = [x for x in entries if x['icvn'] != e['icvn']]
        if not others:
            continue
        o = others[(k * 7 + ctx.seed) % len(others)]
        try:
            a = gen_doc.gen_document(e, zlib.crc32(repr((ctx.seed, 'mixA', k)).encode()), fill=0.3, opt_prob=0.5, maxrep=1, charset='E', n_st=1)
            b = gen_doc.gen_document(o, zlib.crc32(repr((ctx.seed, 'mixB', k)).encode()), fill=0.3, opt_prob=0.5, maxrep=1, charset='E', n_st=1)
        except gen_doc.GenFailed:
            continue
        if len(a.recs) + len(b.recs) > 500:
            continue
        doc = gen_doc.concat_docs([a, b] if k % 2 == 0 else [a, b, a] if False else [b, a])
        text = doc.text()
        ctx.count('docs:interchanges-of-different-versions')
        for L in [None, 'ISA_LOOP', 'GS_LOOP', 'ST_LOOP']:
            judge(ctx, doc, text, L, {'mixed': [e['file'], o['file']], 'order': k % 2, 'loop_id': L, 'text': text if len(text) < 20000 else None}, sigs)
            n += 1
    ctx.case(n=n, sigs=sorted(sigs))


def replay(ctx, case):
    if case.get('mixed'):
        raise RuntimeError('mixed-version cases are regenerated from VERIF_SEED (re-run the check with the seed of the replay file); the stored text shows the input')
    doc = gen_doc.gen_document(case['entry'], case['gen_seed'], **case['params'])
    if case.get('dup_st'):
        dup_st(doc)
    if case.get('ta1'):
        doc = gen_doc.add_ta1(doc, case['ta1'])
    judge(ctx, doc, doc.text(), case['loop_id'], case, set())
