"""C04 - envelope, control-number and counter checks are exact (reader vs independent recount)."""
import io
import zlib

from vlib import ref_envelope as RE
from vlib.worker import exc_key

PROPERTY = 'C04'
LEVEL = 'exploration'
RULE = ('Random envelope skeletons: 1-3 interchanges x 0-3 groups x 0-3 sets, control numbers from a pool of three (forces reuse), declared '
        'counts in {true, +-1, 0, non-numeric, empty, element absent}, trailer ids right/wrong, random body segments (LS/LE markers closed, unclosed and stray among them), HL sequences with '
        'right/wrong/non-numeric numbers and parents, CLM/LX runs; truncated at a random point in 25% of cases; then 0-3 structural mutations '
        '(delete/duplicate/swap/insert/retag of header and trailer segments); every twentieth input is an envelope soup (header, trailer and body segments in arbitrary order behind a well-formed ISA). vlib/ref_envelope.recount decides proper nesting and the exact '
        '(segment index, level, code) multiset; the real X12Reader (check_837_lx on) is iterated with pop_errors() after every segment and '
        'after cleanup(). Properly nested: multisets must be equal (HL parent three-valued). Otherwise: >=1 envelope error and no exception. '
        'non-trivial = distinct (envelope shape, expected discrepancy set) signatures with at least one expected discrepancy or improper nesting.')
ASSUMPTIONS = ['counts and HL/LX numbers that Python int() accepts but are not canonical decimals ("03", " 3", "+3") are don\'t-care',
               'HL parent: ancestors on the accepted open chain must not be flagged, numbers of no earlier HL must be flagged, the rest is don\'t-care; once an HL01 of the set is wrong all later HL parents of that set are don\'t-care',
               'LX numbering is judged only after a CLM in the same set; body segments outside ST..SE make their own HL/LX don\'t-care',
               'every ISA generated has 16 elements (a shorter ISA is a documented refusal, C07)']
REQUIRED_COUNTERS = ['proper', 'improper', 'exp:isa:025', 'exp:gs:6', 'exp:st:23', 'exp:st:3', 'exp:st:4', 'exp:gs:4', 'exp:gs:5', 'exp:isa:001',
                     'exp:isa:021', 'exp:eof:st:2', 'exp:eof:gs:3', 'exp:eof:isa:023', 'exp:seg:HL1', 'exp:seg:HL2', 'exp:seg:LX',
                     'proper-clean', 'segments-fed', 'envelope-soups', 'headers-without-control-number', 'sets-with-unclosed-LS', 'interchanges-of-other-parties', 'mutations:later-interchange-without-ISA-and-IEA']
MIN_CASES = {'quick': 15000, 'thorough': 2000000}

CTL = {'isa': ['000000001', '000000002', '000000003'], 'gs': ['1', '2', '3'], 'st': ['0001', '0002', 'A003', 'B004']}
BODY = [('NM1', ['85', '2', 'X']), ('REF', ['87', '1']), ('DTP', ['472', 'D8', '20040407']), ('N3', ['1 MAIN']), ('SV1', ['HC:99213', '40', 'UN', '1'])]


def count_text(rng, true):
    r = rng.random()
    if r < 0.62:
        return [str(true)]
    return [rng.choice([str(true + 1), str(max(true - 1, 0)), '0', 'X', '', '1A', None, str(true), '99999'])]


_COUNTS = {}


def ctx_count(k):
    _COUNTS[k] = _COUNTS.get(k, 0) + 1


def gen_proper(rng):
    segs = []
    for _ in range(rng.randint(1, 3)):
        isa = rng.choice(CTL['isa'])
        icvn = rng.choice(['00401', '00501'])
        # the parties vary from interchange to interchange (files of several submitters concatenated): a control number seen before is a
        # duplicate whoever sends it
        party = rng.choice([('SENDER', 'RECEIVER'), ('SENDER', 'RECEIVER'), ('OTHERSENDER', 'RECEIVER'), ('SENDER', 'OTHERRCV')])
        if party[0] != 'SENDER' or party[1] != 'RECEIVER':
            ctx_count('interchanges-of-other-parties')
        segs.append(('ISA', RE.isa_elements(isa, icvn, sender=party[0], receiver=party[1])))
        ngs = 0
        for _ in range(rng.randint(0, 3)):
            gs = rng.choice(CTL['gs'])
            if rng.random() < 0.04:
                gs = None                          # GS cut off after GS05
            segs.append(('GS', ['HC', 'A', 'B', '20040608', '1333', gs, 'X', '004010X098A1'] if gs is not None else ['HC', 'A', 'B', '20040608', '1333']))
            ngs += 1
            nst = 0
            for _ in range(rng.randint(0, 3)):
                st = rng.choice(CTL['st'])
                if rng.random() < 0.04:
                    st = None                      # the header carries no control number element at all ('ST*837'); a trailer without one is then consistent
                segs.append(('ST', ['837', st] if st is not None else ['837']))
                nst += 1
                n = 1
                hl = 0
                accepted = []
                lx = None
                ls_open = 0
                for _ in range(rng.randint(0, 7)):
                    r = rng.random()
                    if r < 0.35:
                        hl += 1
                        d = rng.choice([str(hl)] * 6 + [str(hl + 1), 'X', '', '0'])
                        if rng.random() < 0.75:
                            par = rng.choice([''] + [str(c) for c in accepted[-3:]] + [str(c) for c in range(1, hl)])
                        else:
                            par = rng.choice(['99', 'Y', str(hl), str(hl + 1), '0', '-1'])
                        segs.append(('HL', [d, par, '20', '1']))
                        accepted.append(hl)
                    elif r < 0.5:
                        segs.append(('CLM', ['A1', '100']))
                        lx = 0
                    elif r < 0.7 and lx is not None:
                        lx += 1
                        d = rng.choice([str(lx)] * 5 + [str(lx + 1), '', 'X', '0'])
                        segs.append(('LX', [d]))
                    elif r < 0.78:
                        # bounded-loop markers are ordinary body segments for the envelope bookkeeping, closed or not
                        sid = rng.choice(['LS', 'LS', 'LE'])
                        segs.append((sid, ['2120']))
                        ls_open = ls_open + 1 if sid == 'LS' else max(ls_open - 1, 0)
                    else:
                        sid, e = rng.choice(BODY)
                        segs.append((sid, list(e)))
                    n += 1
                if ls_open:
                    ctx_count('sets-with-unclosed-LS')
                n += 1
                se_id = st if rng.random() < 0.8 else rng.choice(['0009', '', None])
                if st is None:
                    ctx_count('headers-without-control-number')
                cnt = count_text(rng, n)[0]
                e = [] if cnt is None else ([cnt] if se_id is None else [cnt, se_id])
                segs.append(('SE', e))
            ge_id = gs if rng.random() < 0.8 else rng.choice(['9', '', None])
            if gs is None:
                ctx_count('headers-without-control-number')
            cnt = count_text(rng, nst)[0]
            e = [] if cnt is None else ([cnt] if ge_id is None else [cnt, ge_id])
            segs.append(('GE', e))
        iea_id = isa if rng.random() < 0.8 else rng.choice(['000000009', '', None])
        cnt = count_text(rng, ngs)[0]
        e = [] if cnt is None else ([cnt] if iea_id is None else [cnt, iea_id])
        segs.append(('IEA', e))
    return segs


ENV = ('ISA', 'GS', 'ST', 'SE', 'GE', 'IEA')


def mutate(rng, segs):
    segs = list(segs)
    muts = []
    for _ in range(rng.randint(1, 3)):
        env_idx = [i for i, s in enumerate(segs) if s[0] in ENV and i > 0]
        if not env_idx:
            break
        k = rng.choice(['delete', 'dup', 'swap', 'orphan', 'retag', 'move', 'unwrap'])
        i = rng.choice(env_idx)
        if k == 'unwrap':
            # a later interchange loses its ISA and its IEA (and, half of the time, the GS / GE inside): groups or sets that stand in no
            # interchange at all, each still closed by its own trailer
            later = [j for j, s_ in enumerate(segs) if s_[0] == 'ISA' and j > 0]
            if not later:
                continue
            a = rng.choice(later)
            b = next((j for j in range(a + 1, len(segs)) if segs[j][0] in ('IEA', 'ISA')), None)
            if b is None or segs[b][0] != 'IEA':
                continue
            drop = {a, b}
            if rng.random() < 0.5:
                drop |= {j for j in range(a, b) if segs[j][0] in ('GS', 'GE')}
            segs = [s_ for j, s_ in enumerate(segs) if j not in drop]
            ctx_count('mutations:later-interchange-without-ISA-and-IEA')
        elif k == 'delete':
            del segs[i]
        elif k == 'dup':
            segs.insert(i, segs[i])
        elif k == 'swap' and i + 1 < len(segs):
            segs[i], segs[i + 1] = segs[i + 1], segs[i]
        elif k == 'orphan':
            t = rng.choice(['SE', 'GE', 'IEA'])
            segs.insert(rng.randint(1, len(segs)), (t, [rng.choice(['1', '0', 'X']), rng.choice(['0001', '1', '000000001'])]))
        elif k == 'retag':
            new = rng.choice(['SE', 'GE', 'IEA', 'ST', 'GS'])
            if new == 'GS':
                segs[i] = ('GS', ['HC', 'A', 'B', '20040608', '1333', rng.choice(CTL['gs']), 'X', '004010X098A1'])
            elif new == 'ST':
                segs[i] = ('ST', ['837', rng.choice(CTL['st'])])
            else:
                segs[i] = (new, list(segs[i][1][:2]) if segs[i][0] != 'ISA' else ['1', '1'])
        elif k == 'move':
            s = segs.pop(i)
            segs.insert(rng.randint(1, len(segs)), s)
        muts.append(k)
    return segs, muts


def observe(text):
    """Feed the real reader; returns (list of (idx, level, code), exception or None, segments seen)."""
    import pyx12.x12file
    got = []
    n = 0
    r = pyx12.x12file.X12Reader(io.StringIO(text))
    r.check_837_lx = True
    for i, s in enumerate(r):
        n += 1
        for e in r.pop_errors():
            got.append((i, e[0], e[1]))
    r.cleanup()
    for e in r.pop_errors():
        got.append(('eof', e[0], e[1]))
    return got, n


def shape_of(segs):
    out = []
    for sid, e in segs:
        if sid in ENV:
            out.append({'ISA': 'I', 'GS': 'G', 'ST': 'S', 'SE': 's', 'GE': 'g', 'IEA': 'i'}[sid])
        elif sid in ('HL', 'LX', 'CLM'):
            out.append(sid[0].lower() if sid != 'CLM' else 'c')
    return ''.join(out)


def judge(ctx, segs, meta):
    text = RE.render(segs)
    res = RE.recount(segs, check_lx=True)
    case = {'text': text[:6000], 'meta': meta}
    ctx.count('segments-fed', len(segs))
    try:
        got, nseen = observe(text)
    except Exception as ex:
        ctx.viol('%s' % exc_key(ex), 'the reader raised %s while reading an envelope sequence (%s nesting)' % (type(ex).__name__, 'proper' if res.proper else 'improper'),
                 case, {'exc': repr(ex), 'proper': res.proper, 'why_improper': res.why_improper})
        ctx.count('raised')
        return None
    if nseen != len(segs):
        raise RuntimeError('harness: reader saw %d of %d segments: %r' % (nseen, len(segs), text[:300]))
    env = [g for g in got if RE.is_envelope_error(g[1], g[2])]
    for m in res.must:
        ctx.count('exp:%s%s:%s' % ('eof:' if m[0] == 'eof' else '', m[1], m[2]))
    for g in env:
        ctx.count('obs:%s%s:%s' % ('eof:' if g[0] == 'eof' else '', g[1], g[2]))
    if res.proper:
        ctx.count('proper')
        if not res.must:
            ctx.count('proper-clean')
        rest = [g for g in env if g not in res.dontcare]
        must = list(res.must)
        missing = []
        for m in must:
            if m in rest:
                rest.remove(m)
            else:
                missing.append(m)
        for m in missing:
            ctx.viol('envelope:missed:%s:%s' % (m[1], m[2]), 'the recount finds a %s/%s discrepancy the reader did not report at that segment' % (m[1], m[2]),
                     case, {'missing': missing, 'spurious': rest, 'reader': env, 'recount': res.must})
        for g in rest:
            ctx.viol('envelope:spurious:%s:%s' % (g[1], g[2]), 'the reader reports a %s/%s envelope error the recount does not find' % (g[1], g[2]),
                     case, {'missing': missing, 'spurious': rest, 'reader': env, 'recount': res.must})
    else:
        ctx.count('improper')
        if not env:
            ctx.viol('envelope:improper-nesting-no-error', 'headers/trailers do not nest properly but no envelope error was reported', case,
                     {'why_improper': res.why_improper, 'all_errors': got})
    sig = shape_of(segs) + '|' + ','.join(sorted('%s%s' % (m[1], m[2]) for m in res.must)) + ('|improper' if not res.proper else '')
    nontrivial = bool(res.must) or not res.proper
    return sig if nontrivial else None


DIRECTED = [
    # (name, segments)  -- deterministic witnesses, always run by shard 0
    ('orphan-IEA-after-close', [('ISA', RE.isa_elements()), ('IEA', ['0', '000000001']), ('IEA', ['0', '000000001'])]),
    ('GE-without-GS', [('ISA', RE.isa_elements()), ('GE', ['0', '1']), ('IEA', ['0', '000000001'])]),
    ('SE-without-ST', [('ISA', RE.isa_elements()), ('GS', ['HC', 'A', 'B', '20040608', '1333', '1', 'X', '004010X098A1']), ('SE', ['1', '0001']),
                       ('GE', ['0', '1']), ('IEA', ['1', '000000001'])]),
    ('ST-without-GS', [('ISA', RE.isa_elements()), ('ST', ['837', '0001']), ('SE', ['2', '0001']), ('IEA', ['0', '000000001'])]),
    ('HL02-non-numeric', [('ISA', RE.isa_elements()), ('GS', ['HC', 'A', 'B', '20040608', '1333', '1', 'X', '004010X098A1']), ('ST', ['837', '0001']),
                          ('HL', ['1', '', '20', '1']), ('HL', ['2', 'Y', '22', '0']), ('SE', ['4', '0001']), ('GE', ['1', '1']), ('IEA', ['1', '000000001'])]),
    ('SE01-absent', [('ISA', RE.isa_elements()), ('GS', ['HC', 'A', 'B', '20040608', '1333', '1', 'X', '004010X098A1']), ('ST', ['837', '0001']),
                     ('SE', []), ('GE', ['1', '1']), ('IEA', ['1', '000000001'])]),
    ('GE01-absent', [('ISA', RE.isa_elements()), ('GS', ['HC', 'A', 'B', '20040608', '1333', '1', 'X', '004010X098A1']), ('GE', []), ('IEA', ['1', '000000001'])]),
    ('IEA01-absent', [('ISA', RE.isa_elements()), ('IEA', [])]),
    ('clean-two-interchanges', [('ISA', RE.isa_elements('000000001')), ('GS', ['HC', 'A', 'B', '20040608', '1333', '1', 'X', '004010X098A1']),
                                ('ST', ['837', '0001']), ('HL', ['1', '', '20', '1']), ('HL', ['2', '1', '22', '0']), ('CLM', ['A', '1']), ('LX', ['1']), ('LX', ['2']),
                                ('SE', ['7', '0001']), ('ST', ['837', '0002']), ('HL', ['1', '', '20', '1']), ('SE', ['3', '0002']), ('GE', ['2', '1']),
                                ('IEA', ['1', '000000001']), ('ISA', RE.isa_elements('000000002')), ('GS', ['HC', 'A', 'B', '20040608', '1333', '1', 'X', '004010X098A1']),
                                ('ST', ['837', '0001']), ('SE', ['2', '0001']), ('GE', ['1', '1']), ('IEA', ['1', '000000002'])]),
]


def run(ctx):
    total = 30000 if ctx.quick else 4000000
    per = total // ctx.nshards
    sigs = set()
    samples = 0
    if ctx.shard == 0:
        for name, segs in DIRECTED:
            s = judge(ctx, segs, {'directed': name})
            ctx.count('directed')
            if s:
                sigs.add(s)
    for k in range(per):
        rng = ctx.sub_rng('c04', ctx.shard, k)
        segs = gen_proper(rng)
        meta = {'gen': ['c04', ctx.shard, k], 'mutations': [], 'truncated_at': None}
        r = rng.random()
        if r < 0.25:
            cut = rng.randint(1, len(segs))
            segs = segs[:cut]
            meta['truncated_at'] = cut
        elif r < 0.6:
            segs, muts = mutate(rng, segs)
            meta['mutations'] = muts
        if k % 20 == 19:
            # envelope soup: header, trailer and body segments in arbitrary order behind a well-formed ISA (mostly improper nesting; the proper ones are judged exactly)
            from vlib import mutate as M
            text = M.envelope_soup(rng)
            segs = [(l.split('*')[0], l.split('*')[1:]) for l in text.split('~\n') if l]
            meta = {'gen': ['c04', ctx.shard, k], 'mutations': ['envelope-soup'], 'truncated_at': None}
            ctx.count('envelope-soups')
        s = judge(ctx, segs, meta)
        if s:
            sigs.add('%08x' % zlib.crc32(s.encode()))
        ctx.sample({'text': RE.render(segs)[:800], 'meta': meta})
    for k_, v_ in _COUNTS.items():
        ctx.count(k_, v_)
    ctx.case(n=per + (len(DIRECTED) if ctx.shard == 0 else 0), sigs=sorted(sigs))


def replay(ctx, case):
    text = case['text']
    # re-tokenise the rendered text (generator data never contains the delimiters)
    segs = []
    for line in text.split('~'):
        if line == '':
            continue
        parts = line.split('*')
        segs.append((parts[0], parts[1:]))
    judge(ctx, segs, case.get('meta'))
