"""C17 - reference-designator and path addressing is consistent.

Part A: X12Path parse / print / re-parse against constructively generated paths (the generator knows the parts)
        and against an independent hand-written parser for the printed path of every node of every shipped map.
Part B: Segment.set / get_value histories against a list-of-lists model.
"""
import itertools

from vlib.worker import exc_key

PROPERTY = 'C17'
LEVEL = 'exploration'
EXHAUSTIVE = {'quick': False, 'thorough': False}
RULE = ('A: grid {relative,absolute} x loop sequences depth 0-3 over representative ids x segment id x qualifier x element x component, '
        'each path built from its parts so the expected fields are known by construction; plus the printed path of every loop/segment/element/'
        'component node of every shipped map parsed by an independent hand-written parser. Checked: fields, format()==text, X12Path(format())==path, '
        'the two documented rejections raise X12PathError. B: random set/get histories on segments (random shapes, ISA included) against a '
        'list-of-lists model: get-after-set, padding, every other position unchanged, foreign segment id refused with EngineError. '
        'non-trivial = distinct path texts with at least a segment part or two loop ids (A) / distinct histories with >=1 padding set (B).')
ASSUMPTIONS = ['loop ids used in generated paths cannot be read as segment ids or element indexes (the grammar itself is ambiguous there)',
               'values written by set() contain no delimiter characters; refdes without an element index are not used for set()',
               'map element ids with a zero-padded component index (CLM05-01) are only required to re-parse to an equal path, not to print identically']
REQUIRED_COUNTERS = ['A:equality-after-hashing', 'A:paths', 'A:expected-reject', 'A:map-node-paths', 'B:histories', 'B:sets', 'B:gets-compared', 'B:foreign-refused', 'B:foreign-after-accepted']
MIN_CASES = {'quick': 20000, 'thorough': 500000}

LOOPS = ['2000A', 'ISA_LOOP', '2300', 'HEADER', '1000B', '2010AA', '2400', 'GS_LOOP']
SEGS = [None, 'NM1', 'N3', 'CLM', 'HL', 'K3', 'ST', 'B2A', 'N1']
QUALS = [None, '85', 'ZZ9', 'A', '1P']
ELES = [None, 1, 2, 9, 10, 99]
SUBS = [None, 1, 2, 9, 10, 25]


def build(rel, ll, sg, q, e, sb):
    last = (sg or '') + ('[%s]' % q if q else '') + ('%02d' % e if e else '') + ('-%d' % sb if sb else '')
    parts = list(ll) + ([last] if last else [])
    if not parts:
        return '' if rel else '/'
    return ('' if rel else '/') + '/'.join(parts)


def check_path(ctx, text, exp_fields, expect_err, src):
    from pyx12.path import X12Path
    from pyx12.errors import X12PathError
    case = {'path': text, 'source': src}
    try:
        p = X12Path(text)
    except X12PathError as ex:
        if not expect_err:
            ctx.viol('path:unexpected-X12PathError', 'X12Path rejected a well-formed path', case, {'exc': str(ex)})
        return
    except Exception as ex:
        ctx.viol('path:raises-%s' % type(ex).__name__, 'X12Path raised an undocumented exception', case, {'exc': repr(ex), 'where': exc_key(ex)})
        return
    if expect_err:
        ctx.viol('path:missing-X12PathError', 'qualifier/element index without a segment id after loop ids was accepted', case,
                 {'fields': repr((p.relative, p.loop_list, p.seg_id, p.id_val, p.ele_idx, p.subele_idx))})
        return
    fields = (p.relative, tuple(p.loop_list), p.seg_id, p.id_val, p.ele_idx, p.subele_idx)
    if exp_fields is not None and fields != exp_fields:
        ctx.viol('path:fields', 'parsed parts differ from the parts the path was built from', case, {'got': fields, 'expected': exp_fields})
    f = p.format()
    if exp_fields is not None and exp_fields[-1] is not None and src == 'map' and '-0' in text:
        pass  # zero padded component index: print may canonicalise
    elif f != text:
        ctx.viol('path:format', 'format() does not reproduce the path text', case, {'got': f})
    try:
        p2 = X12Path(f)
        if not (p2 == p) or (p2 != p):
            ctx.viol('path:reparse-neq', 'parsing the printed form gives a different path', case, {'printed': f})
        if p2.format() != f:
            ctx.viol('path:print-not-idempotent', 'printing the re-parsed path differs', case, {'printed': f, 'again': p2.format()})
        # equality must not depend on what has been done with a path object before: use one of them as a dict key / set member (the map walker
        # counts nodes by their path objects), then compare again in both directions and look the other one up
        ctx.count('A:equality-after-hashing')
        table = {p: 1}
        p3 = X12Path(f)
        if not (p == p3) or not (p3 == p) or (p != p3) or (p3 != p) or hash(p) != hash(p3) or p3 not in table or p3 not in set([p]):
            ctx.viol('path:equality-depends-on-history', 'a path that was used as a dict key is no longer equal to (or found by) a freshly parsed equal path', case,
                     {'printed': f, 'eq': [p == p3, p3 == p], 'ne': [p != p3, p3 != p], 'hash_equal': hash(p) == hash(p3), 'found': p3 in table})
    except Exception as ex:
        ctx.viol('path:reparse-raises-%s' % type(ex).__name__, 'parsing the printed form raised', case, {'printed': f, 'exc': repr(ex)})


def hand_parse(text):
    """Independent parser of the documented grammar (no regex)."""
    rel = not text.startswith('/')
    body = text if rel else text[1:]
    parts = body.split('/') if body != '' else []
    if parts and parts[-1] == '':
        return (rel, tuple(parts[:-1]), None, None, None, None)
    if not parts:
        return (rel, (), None, None, None, None)
    last = parts[-1]
    i = 0
    seg = qual = ele = sub = None
    up = 'ABCDEFGHIJKLMNOPQRSTUVWXYZ'
    an = up + '0123456789'
    # greedy segment id: letter + 1..2 alnum (backtracking the same way a regex would: try 3 then 2)
    cands = []
    if len(last) >= 2 and last[0] in up and last[1] in an:
        if len(last) >= 3 and last[2] in an:
            cands.append(3)
        cands.append(2)
    cands.append(0)
    for n in cands:
        seg = last[:n] or None
        i = n
        qual = ele = sub = None
        if i < len(last) and last[i] == '[':
            j = last.find(']', i)
            if j > i + 1 and all(c in an for c in last[i + 1:j]):
                qual = last[i + 1:j]
                i = j + 1
        if i + 2 <= len(last) and last[i].isdigit() and last[i + 1].isdigit() and last[i:i + 2].isascii():
            ele = int(last[i:i + 2])
            i += 2
        if i < len(last) and last[i] == '-' and i + 1 < len(last) and last[i + 1:].isdigit() and last[i + 1:].isascii():
            sub = int(last[i + 1:])
            i = len(last)
        if i == len(last):
            return (rel, tuple(parts[:-1]), seg, qual, ele, sub)
    return (rel, tuple(parts), None, None, None, None)


def part_a(ctx):
    n = 0
    sigs = set()
    depths = [0, 1, 2, 3]
    for rel in (True, False):
        for depth in depths:
            if depth < 3:
                seqs = itertools.product(LOOPS[:6], repeat=depth)
            elif not ctx.quick:
                seqs = itertools.product(LOOPS[:4], repeat=3)
            else:
                seqs = [tuple(LOOPS[:3]), tuple(LOOPS[3:6]), tuple(LOOPS[5:8]), ('2000A', '2000A', '2000A')]
            for ll in seqs:
                for sg, q, e, sb in itertools.product(SEGS, QUALS, ELES, SUBS):
                    if sb is not None and e is None:
                        continue
                    text = build(rel, ll, sg, q, e, sb)
                    if text == '':
                        continue
                    if not ctx.mine(text):
                        continue
                    expect_err = (sg is None and q is not None) or (sg is None and e is not None and len(ll) > 0)
                    exp = (rel, tuple(ll), sg, q, e, sb)
                    n += 1
                    ctx.count('A:paths')
                    if expect_err:
                        ctx.count('A:expected-reject')
                    check_path(ctx, text, exp, expect_err, 'grid')
                    if sg is not None or len(ll) >= 2:
                        sigs.add(text)
    ctx.case(n=n, nt_disjoint=len(sigs), sample={'grid_path': build(False, ('2000A', '2300'), 'NM1', '85', 3, 2)})

def map_files():
    import os
    d = os.path.join(os.environ.get('VERIF_REPO', '/repo'), 'pyx12', 'map')
    return sorted(f for f in os.listdir(d) if f.endswith('.xml') and (f[0].isdigit() or f.startswith('x12.control')))


def part_a_maps(ctx):
    import pyx12.map_if
    import pyx12.params
    param = pyx12.params.params()
    n = 0
    sigs = set()
    for fi, fn in enumerate(map_files()):
        if fi % ctx.nshards != ctx.shard:
            continue
        try:
            m = pyx12.map_if.load_map_file(fn, param)
        except Exception:
            ctx.count('A:map-load-failed')   # C16's business
            continue
        for node in m.loop_segment_iterator():
            if node.is_map_root():
                continue
            texts = [node.get_path()]
            if node.is_segment():
                for ch in node.children:
                    try:
                        texts.append(ch.get_path())
                    except Exception:
                        continue
                    if ch.is_composite():
                        for sub in ch.children:
                            try:
                                texts.append(sub.get_path())
                            except Exception:
                                pass
            for text in texts:
                if text.endswith('/'):
                    ctx.count('A:map-composite-paths-skipped')   # composites report '<segment path>/': not a path of the documented grammar (C16 looks at them)
                    continue
                n += 1
                ctx.count('A:map-node-paths')
                check_path(ctx, text, hand_parse(text), False, 'map')
                sigs.add(text)
    ctx.case(n=n, sigs=[], nt_disjoint=0, sample={'map_node_paths_checked': n})
    ctx.count('A:distinct-map-paths', len(sigs))


# ---------------------------------------------------------------- part B

class Model(object):
    def __init__(self, seg_id, els, isa=False):
        self.seg_id = seg_id
        self.els = [list(e) for e in els]

    def set(self, e, c, v):
        while len(self.els) < e:
            self.els.append([''])
        if c is None:
            self.els[e - 1] = [v]
        else:
            while len(self.els[e - 1]) < c:
                self.els[e - 1].append('')
            self.els[e - 1][c - 1] = v

    def get(self, e, c, sub_t):
        if e > len(self.els):
            return None
        comp = self.els[e - 1]
        if c is None:
            k = len(comp)
            while k > 1 and comp[k - 1] == '':
                k -= 1
            return sub_t.join(comp[:k])
        if c > len(comp):
            return None
        return comp[c - 1]


VALS = ['A', 'XYZ', '12', '0', ' ', 'a b', '', 'Q9', '-1.5', 'LONGERVALUE123', "O'NEIL", '&<>"']


SEG_IDS = ['NM1', 'CLM', 'N3', 'HL', 'ISA', 'SV1', 'B2', 'REF', 'ST', 'STC', 'B2A', 'N1', 'N10', 'HLH', 'SV', 'RE']      # some are prefixes of others: a designator names a segment only by its whole id


def rand_history(ctx, rng, hid):
    import pyx12.segment
    from pyx12.errors import EngineError
    seg_id = rng.choice(SEG_IDS)
    terms = rng.choice([('~', '*', ':'), ('!', '|', '>'), ('\n', '^', '\\'), ('\x1c', '\x1d', '\x1f')])
    seg_t, ele_t, sub_t = terms
    vals = [v for v in VALS if not any(t in v for t in terms)]
    nel = rng.randint(0, 6)
    els = []
    for i in range(nel):
        nc = 1 if (seg_id == 'ISA' or rng.random() < 0.6) else rng.randint(2, 4)
        els.append([rng.choice(vals[:6] + ['']) for _ in range(nc)])
    text = seg_id + ''.join(ele_t + sub_t.join(e) for e in els)
    seg = pyx12.segment.Segment(text, seg_t, ele_t, sub_t)
    # the constructor splits on the separators, so an element made only of empty components is [''...]: mirror exactly
    model = Model(seg_id, els)
    ops = []
    padded = False
    nops = rng.randint(1, 20)
    for k in range(nops):
        e = rng.choice([1, 1, 2, 3, 4, 5, 7, 12, 16])
        c = None if (seg_id == 'ISA' or rng.random() < 0.5) else rng.choice([1, 2, 3, 6])
        v = rng.choice(vals)
        style = rng.choice(['bare', 'seg', 'qual', 'foreign'])
        ref = '%02d' % e + ('-%d' % c if c else '')
        if style == 'seg':
            ref = seg_id + ref
        elif style == 'qual':
            ref = seg_id + '[ZZ]' + ref
        elif style == 'foreign':
            # another real segment id: the same designator string is legitimately accepted on that segment in other histories
            other = rng.choice([x for x in SEG_IDS + ['ZZ9'] if x != seg_id])
            ref = other + ref
        ops.append((ref, v))
        before = [list(x) for x in model.els]
        try:
            seg.set(ref, v)
        except EngineError:
            if style != 'foreign':
                ctx.viol('segment:set-raises-EngineError', 'set() on own designator refused', {'segment': text, 'ops': ops})
                return padded
            ctx.count('B:foreign-refused')
            # nothing may have changed
        except Exception as ex:
            ctx.viol('segment:set-raises-%s' % type(ex).__name__, 'set() raised an undocumented exception', {'segment': text, 'terms': terms, 'ops': ops},
                     {'exc': repr(ex), 'where': exc_key(ex)})
            return padded
        else:
            if style == 'foreign':
                ctx.viol('segment:foreign-designator-accepted', 'a designator naming another segment was not refused', {'segment': text, 'ops': ops})
                return padded
            if e > len(model.els) or (c is not None and c > len(model.els[e - 1])):
                padded = True
            model.set(e, c, v)
            ctx.count('B:sets')
            got = seg.get_value(ref)
            if got != v:
                ctx.viol('segment:get-after-set', 'reading the designator just written returns another value', {'segment': text, 'terms': terms, 'ops': ops},
                         {'got': got, 'expected': v})
                return padded
        # every position, compared
        if len(seg) != len(model.els):
            ctx.viol('segment:length', 'segment length differs from the model after set', {'segment': text, 'terms': terms, 'ops': ops},
                     {'got': len(seg), 'expected': len(model.els)})
            return padded
        for ee in range(1, len(model.els) + 3):
            maxc = len(model.els[ee - 1]) if ee <= len(model.els) else 1
            for cc in [None] + list(range(1, maxc + 2)):
                if seg_id == 'ISA' and cc is not None:
                    continue
                r = '%02d' % ee + ('-%d' % cc if cc else '')
                got = seg.get_value(r)
                exp = model.get(ee, cc, sub_t)
                ctx.count('B:gets-compared')
                if got != exp:
                    ctx.viol('segment:other-position-changed' if (ee, cc) != (e, c) else 'segment:get-after-set',
                             'a position differs from the list-of-lists model', {'segment': text, 'terms': terms, 'ops': ops},
                             {'refdes': r, 'got': got, 'expected': exp})
                    return padded
    # the designators this segment accepted, carrying its id, on a segment with another id: reads and writes both refused, nothing changed
    import re as _re
    own = _re.compile('^' + _re.escape(seg_id) + r'(\[[A-Z0-9]+\])?[0-9][0-9](-[0-9]+)?$')
    used = [r for (r, v) in ops if own.match(r)]
    if used:
        oid = rng.choice([x for x in SEG_IDS if x != seg_id and x != 'ISA'])
        otext = oid + ele_t + 'P' + ele_t + 'Q' + sub_t + 'R' + ele_t + 'S'
        oseg = pyx12.segment.Segment(otext, seg_t, ele_t, sub_t)
        for r in used[:4]:
            for what in ('get_value', 'set'):
                ctx.count('B:foreign-after-accepted')
                try:
                    if what == 'get_value':
                        oseg.get_value(r)
                    else:
                        oseg.set(r, 'W')
                except EngineError:
                    pass
                except Exception as ex:
                    ctx.viol('segment:foreign-%s-raises-%s' % (what, type(ex).__name__), 'a designator naming another segment raised something other than EngineError',
                             {'segment': otext, 'refdes': r, 'first_segment': text, 'ops': ops}, {'exc': repr(ex)})
                    return padded
                else:
                    ctx.viol('segment:foreign-designator-accepted:%s:after-own-segment-accepted-it' % what, 'a designator naming another segment was not refused', {'segment': otext, 'refdes': r, 'first_segment': text, 'ops': ops})
                    return padded
            if oseg.format(seg_t, ele_t, sub_t) != otext + seg_t:
                ctx.viol('segment:foreign-designator-changed-segment', 'a refused designator changed the segment', {'segment': otext, 'refdes': r}, {'now': oseg.format(seg_t, ele_t, sub_t)})
                return padded
    return padded


def part_b(ctx):
    nh = 1500 if ctx.quick else 400000
    nh = max(1, nh // ctx.nshards)
    sigs = 0
    for i in range(nh):
        rng = ctx.sub_rng('B', ctx.shard, i)
        try:
            padded = rand_history(ctx, rng, i)
        except Exception as ex:
            ctx.viol('segment:raises-%s' % type(ex).__name__, 'Segment API raised an undocumented exception', {'history': (ctx.shard, i)},
                     {'exc': repr(ex), 'where': exc_key(ex)})
            padded = False
        ctx.count('B:histories')
        if padded:
            sigs += 1
    ctx.case(n=nh, nt_disjoint=sigs, sample={'history_seed': ['B', ctx.shard, 0]})


def run(ctx):
    part_a(ctx)
    part_a_maps(ctx)
    part_b(ctx)


def replay(ctx, case):
    if 'path' in case:
        check_path(ctx, case['path'], hand_parse(case['path']), False, case.get('source', 'replay'))
    else:
        part_b(ctx)
