"""C08 - X12 -> XML -> X12 is the identity on structurally valid documents."""
import io
import xml.etree.ElementTree as ET
import zlib

from vlib import gen_doc, pipeline, ref_token
from vlib.worker import exc_key

PROPERTY = 'C08'
LEVEL = 'exploration'
RULE = ('Generated documents of every selectable map (1-2 sets/groups/interchanges, repeated loops, charset E with a value pool rich in & < > \' " and blanks, plain pool under charset B, '
        'a variant that also fills some not-used elements), written with random delimiter triples, are rendered to XML by the real x12n_document(fd_xmldoc=...) and converted back by the real '
        'xmlx12_simple.convert. Oracles: XML is well formed (expat); each seg sits in loop elements whose id chain equals the map path of the node the generator intended; loop-element identity '
        'is in bijection with generated loop instances (a repeated loop opens a fresh element); every ele/subele id is the reference designator of its position and its text the value; the '
        'converted text tokenises to the same segments and values in order, except delimiters, ISA11/ISA16 and not-used elements. '
        'non-trivial = distinct documents with >=1 repeated loop and >=1 character that XML must escape.')
ASSUMPTIONS = ['data excludes ~ * : (the converter\'s fixed output delimiters; X12 has no escaping) and control characters (XML line-end normalisation)',
               'the component separator (it is the value of ISA16) is a character XML 1.0 can represent; segment and element separators may be control characters',
               'the id of the <comp> wrapper element is not asserted (the property names elements and components)',
               'the intended map path of each segment is the generator\'s ground truth (unambiguous sub-language, DESIGN 4.1)']
REQUIRED_COUNTERS = ['docs:data-holding-the-usual-delimiters', 'docs:blank-only-component', 'docs:data-with-CDATA-end', 'docs:data-with-comment-marks', 'docs:with-TA1', 'cli:invocations', 'cli:round-trips-compared', 'docs:component-separator-inside-a-simple-element', 'docs:with-doctype', 'docs', 'segments-compared', 'elements-compared', 'subelements-compared', 'roundtrips', 'docs:escaped-chars', 'docs:repeated-loop', 'docs:notused-filled', 'reach:x12xml_simple.seg']
MIN_CASES = {'quick': 200, 'thorough': 6000}
WATCHDOG_S = {'quick': 1200, 'thorough': 7200}

TERMS = [('~', '*', ':'), ('!', '|', '>'), ('\n', '|', '^'), ('\x1c', '\x1d', '<'), ('$', '+', '\\'), ('}', '{', ';'), ('\x1e', '\x1f', '&'),
         # the usual delimiter characters in other roles (the converter builds its segments in ~ * : and hands them to a writer set up from the ISA)
         ('~', '|', '*'), ('*', ':', '~'), (':', '~', '|')]
_installed = []


def install(ctx):
    if _installed:
        return
    import pyx12.x12xml_simple as XS
    orig = XS.x12xml_simple.seg

    def seg(self, *a, **k):
        ctx.counters['reach:x12xml_simple.seg'] = ctx.counters.get('reach:x12xml_simple.seg', 0) + 1
        return orig(self, *a, **k)
    XS.x12xml_simple.seg = seg
    _installed.append(1)


def expected(doc):
    out = []
    for r in doc.recs:
        els = []
        for p, v in enumerate(r.vals, 1):
            node = r.node.children[p - 1] if p <= len(r.node.children) else None
            if node is None:
                continue
            comps = list(v) if isinstance(v, list) else [v]
            if node.usage == 'N':
                els.append((p, node, None))
                continue
            if all(c == '' for c in comps):
                els.append((p, node, None))
                continue
            els.append((p, node, comps))
        out.append((r, els))
    return out


def xml_segments(root):
    """[(seg element, [loop elements from outermost])]"""
    out = []

    def walk(e, stack):
        for ch in e:
            if ch.tag == 'loop':
                walk(ch, stack + [ch])
            elif ch.tag == 'seg':
                out.append((ch, list(stack)))
            else:
                out.append((ch, list(stack)))
    walk(root, [])
    return out


def cli_phase(ctx, text, charset, case):
    """the command-line front ends (pyx12.scripts.x12xml -o, then pyx12.scripts.xmlx12 -o) must write what the library writes for the same input"""
    import os
    import subprocess
    import sys
    import pyx12.xmlx12_simple
    res = pipeline.validate(text, charset='E', ack=False, xml=True)
    if res.exc is not None or not res.xml:
        return
    d = os.path.join(ctx.scratch, 'c08-cli-%d' % ctx.shard)
    os.makedirs(d, exist_ok=True)
    for f in os.listdir(d):
        os.unlink(os.path.join(d, f))
    src, xmlf, backf = os.path.join(d, 'in.x12'), os.path.join(d, 'out.xml'), os.path.join(d, 'back.x12')
    with open(src, 'w', encoding='ascii', newline='') as fd:
        fd.write(text)
    env = dict(os.environ, PYTHONWARNINGS='ignore')
    p1 = subprocess.run([sys.executable, '-m', 'pyx12.scripts.x12xml', '-q', '-o', xmlf, src], stdout=subprocess.PIPE, stderr=subprocess.PIPE, env=env, timeout=300, cwd=d)
    ctx.count('cli:invocations')
    got = open(xmlf, encoding='utf-8', errors='replace', newline='').read() if os.path.exists(xmlf) else ''
    if got != res.xml:
        k = next((j for j, (x, y) in enumerate(zip(got + '\0', res.xml + '\0')) if x != y), None)
        ctx.viol('cli:xml-differs', 'the XML written by the command-line front end differs from the XML the library writes for the same input', dict(case, cli=True),
                 {'cli_len': len(got), 'library_len': len(res.xml), 'first_difference_at': k, 'cli_there': got[k:k + 120] if k is not None else None, 'stderr': p1.stderr.decode('ascii', 'replace')[-200:]})
        return
    out = io.StringIO()
    try:
        pyx12.xmlx12_simple.convert(io.StringIO(res.xml), out)
    except Exception:
        return
    p2 = subprocess.run([sys.executable, '-m', 'pyx12.scripts.xmlx12', '-q', '-o', backf, xmlf], stdout=subprocess.PIPE, stderr=subprocess.PIPE, env=env, timeout=300, cwd=d)
    ctx.count('cli:invocations')
    back = open(backf, encoding='ascii', errors='replace', newline='').read() if os.path.exists(backf) else ''
    ctx.count('cli:round-trips-compared')
    if back != out.getvalue():
        ctx.viol('cli:x12-differs', 'the X12 written by the command-line XML-to-X12 front end differs from what the library converts the same XML to', dict(case, cli=True),
                 {'cli_len': len(back), 'library_len': len(out.getvalue()), 'cli_head': back[:200], 'stderr': p2.stderr.decode('ascii', 'replace')[-200:]})


def judge(ctx, doc, terms, case, sigs):
    import pyx12.xmlx12_simple
    seg_t, ele_t, sub_t = terms
    text = doc.text(seg_t, ele_t, sub_t, '\n' if seg_t != '\n' else '')
    ctx.count('docs')
    if ']]>' in text:
        ctx.count('docs:data-with-CDATA-end')
    if '<!--' in text or '-->' in text:
        ctx.count('docs:data-with-comment-marks')
    prm = None
    if case.get('simple_dtd'):
        # configuration: a DTD named for the simple form -> a DOCTYPE declaration in the rendering, which must stay well formed and convertible
        import pyx12.params
        prm = pyx12.params.params()
        prm.set('charset', doc.charset)
        prm.set('simple_dtd', case['simple_dtd'])
        ctx.count('docs:with-doctype')
    res = pipeline.validate(text, charset=doc.charset, ack=False, xml=True, params=prm)
    if res.exc is None and case.get('simple_dtd') and '<!DOCTYPE' not in (res.xml or '')[:400]:
        ctx.viol('xml:doctype-missing', 'simple_dtd is configured but the rendering has no DOCTYPE declaration', case, {'xml_head': (res.xml or '')[:300]})
    if res.exc is not None:
        ctx.viol('xml:x12n_document:%s' % res.exc_key, 'rendering a structurally valid document to XML raised', case, {'exc': repr(res.exc)[:300], 'tb': res.exc_tb})
        return
    seg_errors = [e for e in (res.errors or []) if e[0] == 'seg']
    if seg_errors:
        # not "every segment located in its map": outside the property (C02 judges conformance)
        ctx.count('skipped:segment-level-errors')
        return
    xml = res.xml
    try:
        root = ET.fromstring(xml)
    except ET.ParseError as ex:
        ctx.viol('xml:not-well-formed', 'the XML rendering is not well formed', case, {'exc': str(ex), 'xml_head': xml[:600]})
        return
    exp = expected(doc)
    xs = xml_segments(root)
    stray = [e.tag for e, st in xs if e.tag != 'seg']
    if stray:
        ctx.viol('xml:stray-element', 'elements other than loop/seg occur outside segments', case, {'tags': stray[:5]})
        return
    if len(xs) != len(exp):
        ctx.viol('xml:segment-count', 'the XML has a different number of seg elements than the document has segments', case, {'xml': len(xs), 'document': len(exp)})
        return
    x2inst = {}
    inst2x = {}
    prev_chain = None
    for i, ((se, stack), (r, els)) in enumerate(zip(xs, exp)):
        ctx.count('segments-compared')
        c2 = dict(case, segment_index=i, segment=gen_doc.render_seg(r.node.id, r.vals))
        if se.get('id') != r.node.id:
            ctx.viol('xml:seg-id', 'seg id differs from the segment', c2, {'xml': se.get('id'), 'expected': r.node.id})
            return
        got_chain = [l.get('id') for l in stack]
        want_chain = [l.id for (l, n) in r.chain]
        if got_chain != want_chain:
            ctx.viol('xml:loop-chain', 'the loop elements around a segment do not spell the map path of the node it matched', c2, {'xml': got_chain, 'expected': want_chain})
            return
        for d, (le, (l, n)) in enumerate(zip(stack, r.chain)):
            kx, ki = id(le), (id(l), n)
            if x2inst.setdefault(kx, ki) != ki or inst2x.setdefault(ki, kx) != kx:
                ctx.viol('xml:loop-instance:%s' % ('merged' if x2inst.get(kx) != ki else 'split'),
                         'loop elements are not in one-to-one correspondence with loop instances (a repeated loop must open a fresh element, one instance must stay in one element)',
                         c2, {'depth': d, 'loop': l.id})
                return
        if prev_chain is not None:
            common = 0
            for a, b in zip(prev_chain, r.chain):
                if a[1] != b[1]:
                    break
                common += 1
            ctx.add('pop_push_transitions', '%d/%d' % (len(prev_chain) - common, len(r.chain) - common))
        prev_chain = r.chain
        # element labels and values
        got = []
        for ch in se:
            if ch.tag == 'ele':
                got.append(('ele', ch.get('id'), ch.text or ''))
            elif ch.tag == 'comp':
                for sb in ch:
                    if sb.tag != 'subele':
                        ctx.viol('xml:comp-child', 'a comp element holds something other than subele', c2, {'tag': sb.tag})
                        return
                    if (sb.text or '') != '':
                        got.append(('subele', sb.get('id'), sb.text or ''))
            else:
                ctx.viol('xml:seg-child', 'a seg element holds something other than ele/comp', c2, {'tag': ch.tag})
                return
        want = []
        for (p, node, comps) in els:
            if comps is None:
                continue
            if node.kind == 'ele':
                v0 = sub_t.join(comps)        # a simple element whose data holds the component separator is still one text
                if r.node.id == 'ISA' and p == 16:
                    v0 = sub_t
                want.append(('ele', node.id, v0))
                ctx.count('elements-compared')
            else:
                for j, cv in enumerate(comps):
                    if cv != '' and j < len(node.children):
                        want.append(('subele', node.children[j].id, cv))
                        ctx.count('subelements-compared')
        if got != want:
            k = next((a, b) for a, b in zip(got + [None], want + [None]) if a != b)
            what = 'label' if (k[0] and k[1] and k[0][2] == k[1][2]) else 'value'
            ctx.viol('xml:element-%s' % what, 'an ele/subele id or text differs from the reference designator / value at that position', c2, {'xml': k[0], 'expected': k[1]})
            return
    # ---- back to X12
    ctx.count('roundtrips')
    out = io.StringIO()
    try:
        pyx12.xmlx12_simple.convert(io.StringIO(xml), out)
    except Exception as ex:
        ctx.viol('convert:%s' % exc_key(ex), 'xmlx12_simple.convert raised on the XML the validator wrote', case, {'exc': repr(ex)[:300]})
        return
    text2 = out.getvalue()
    try:
        terms2, pieces = ref_token.tokenize(text2)
    except Exception as ex:
        ctx.viol('convert:unreadable', 'the converted text cannot be tokenised', case, {'exc': repr(ex), 'head': text2[:300]})
        return
    got = [p.normal() for p in pieces if not p.blank_only]
    want = []
    simple_pos = []
    for (r, els) in exp:
        vals = []
        n = max([p for (p, node, comps) in els] + [0])
        byp = dict((p, comps) for (p, node, comps) in els)
        for p in range(1, n + 1):
            comps = byp.get(p)
            vals.append(list(comps) if comps else [''])
        want.append(gen_doc.norm(r.node.id, [c if len(c) > 1 else c[0] for c in vals]))
        simple_pos.append(set(p for (p, node, comps) in els if node.kind == 'ele' and comps and len(comps) > 1))
    if len(got) != len(want):
        ctx.viol('roundtrip:segment-count', 'the converted document has a different number of segments', case, {'got': len(got), 'expected': len(want)})
        return
    for i, (a, b) in enumerate(zip(got, want)):
        if a[0] == 'ISA' and b[0] == 'ISA' and len(a[1]) == 16 and len(b[1]) == 16:
            a = (a[0], a[1][:10] + [['*']] + a[1][11:15] + [['*']])
            b = (b[0], b[1][:10] + [['*']] + b[1][11:15] + [['*']])
        if simple_pos[i] and a[0] == b[0]:
            # the text of a simple element that holds the component separator: same characters, whatever the separator is on the way back
            a = (a[0], [[terms2[2].join(c)] if k + 1 in simple_pos[i] else c for k, c in enumerate(a[1])])
            b = (b[0], [[sub_t.join(c)] if k + 1 in simple_pos[i] else c for k, c in enumerate(b[1])])
        if a != b:
            ctx.viol('roundtrip:%s' % ('segment-id' if a[0] != b[0] else 'values'), 'X12 -> XML -> X12 changed a segment', dict(case, segment_index=i), {'got': a, 'expected': b})
            return
    special = any(c in text for c in '&<>\'"')
    repeated = len(inst2x) > len(set(k[0] for k in inst2x))
    if special:
        ctx.count('docs:escaped-chars')
    if repeated:
        ctx.count('docs:repeated-loop')
    if doc.meta.get('notused_filled'):
        ctx.count('docs:notused-filled')
    if special and repeated:
        sigs.add('%08x' % zlib.crc32(text.encode('utf-8', 'replace')))


def build(ctx, e, label, k, seed=None):
    """the document, delimiters and case record of index k for one map entry (shared by the run and by replays)"""
    rng = ctx.sub_rng('c08', label, k)
    terms = TERMS[k % len(TERMS)]
    cs = 'E' if k % 4 != 3 else 'B'
    kw = dict(fill=[0.3, 0.6, 1.0][k % 3], opt_prob=[0.4, 0.7, 1.0][(k // 3) % 3], maxrep=[1, 2, 3][(k // 2) % 3], charset=cs, rich=True,
              n_isa=2 if k % 9 == 8 else 1, n_gs=2 if k % 5 == 4 else 1, n_st=[1, 2][k % 2], fill_notused=0.3 if k % 6 == 5 else 0.0,
              forbid='~*:^' + ''.join(terms) + '\r\n\t')
    seed = zlib.crc32(repr((ctx.seed, label, k)).encode()) if seed is None else seed
    try:
        doc = gen_doc.gen_document(e, seed, **kw)
    except gen_doc.GenFailed:
        ctx.count('genfailed')
        return None
    if len(doc.recs) > 1500:
        ctx.count('skipped-large')
        return None
    if k % 4 == 2:
        # the envelope map's own optional segment: an interchange acknowledgement after the ISA or after the last group
        doc = gen_doc.add_ta1(doc, ['after-isa', 'before-iea'][(k // 4) % 2])
        ctx.count('docs:with-TA1')
    if k % 7 == 3:
        # one or two plain AN elements get data that holds the component separator ('X<sep>Y', '<sep>Y'): an element error, but the segment
        # is still located in its map, so rendering and round trip must carry the text unchanged
        from vlib import faults
        sites = [x for x in faults.element_sites(doc, None) if x[3] is None and x[1].kind == 'ele' and faults._present(x[4]) and x[1].usage != 'N'
                 and faults._plain_site(x[0], x[1], x[2], x[3], x[4], doc) and gen_doc.dtype_of(x[1])[0] == 'AN' and not x[1].codes and not x[1].external]
        rng.shuffle(sites)
        if sites:
            doc = faults.clone(doc)
            for (i2, node2, ep2, sp2, cur2) in sites[:rng.choice([1, 2])]:
                doc.recs[i2].vals[ep2 - 1] = rng.choice([['X', 'Y'], ['', 'Y'], ['SEE ATTACHED', ' OP REPORT'], ['A', '', 'C']])
            ctx.count('docs:component-separator-inside-a-simple-element')
    if k % 5 == 1:
        # the characters that usually delimit (~ * :) as ordinary data of a document that uses other delimiters: valid, and they come back
        usable_ = [c for c in '*:~' if c not in terms and (c != '~' or cs == 'E')]
        from vlib import faults as faults2_
        sites_ = [x for x in faults2_.element_sites(doc, None) if x[1].kind == 'ele' and faults2_._present(x[4]) and x[1].usage != 'N'
                  and faults2_._plain_site(x[0], x[1], x[2], x[3], x[4], doc) and gen_doc.dtype_of(x[1])[0] == 'AN' and not x[1].codes and not x[1].external
                  and not x[1].regex and gen_doc.dtype_of(x[1])[1] <= 3 <= gen_doc.dtype_of(x[1])[2]]
        if usable_ and sites_:
            doc = faults2_.clone(doc)
            rng.shuffle(sites_)
            for (i3, node3, ep3, sp3, cur3) in sites_[:3]:
                faults2_.set_value(doc.recs[i3], ep3, sp3, 'A' + rng.choice(usable_) + 'B')
            ctx.count('docs:data-holding-the-usual-delimiters')
    if k % 7 == 5:
        # a component (middle or last) of a composite that holds blanks only: data, not absence - it comes back as it went
        from vlib import faults as faults_
        comps_ = [(r_, j_) for r_ in doc.recs if faults_.is_body(r_) for j_, v_ in enumerate(r_.vals) if isinstance(v_, list) and len(v_) >= 2]
        if comps_:
            doc = faults_.clone(doc)
            comps_ = [(r_, j_) for r_ in doc.recs if faults_.is_body(r_) for j_, v_ in enumerate(r_.vals) if isinstance(v_, list) and len(v_) >= 2]
            for (r_, j_) in rng.sample(comps_, min(len(comps_), 2)):
                v_ = list(r_.vals[j_])
                v_[rng.randint(1, len(v_) - 1)] = ' ' * rng.randint(1, 3)
                r_.vals[j_] = v_
            ctx.count('docs:blank-only-component')
    case = {'map': e['file'], 'entry': e, 'gen_seed': seed, 'params': kw, 'terms': list(terms), 'simple_dtd': [None, 'x12simple.dtd', None, 'http://example.invalid/dtd/x12simple.dtd', None][k % 5], 'ta1': doc.meta.get('ta1')}
    case['k'] = k
    case['label'] = label
    return doc, terms, case, seed


def run(ctx):
    install(ctx)
    sigs = set()
    n = 0
    entries = [e for e in gen_doc.index_entries() if e['file'] != '841.4010.XXXC.xml']
    per_map = 14 if ctx.quick else 400
    for e in entries:
        label = e['file'] + ('/tspc=%s' % e['tspc'] if e.get('tspc') else '')
        for k in range(per_map):
            if not ctx.mine((label, k)):
                continue
            built = build(ctx, e, label, k)
            if built is None:
                continue
            doc, terms, case, seed = built
            judge(ctx, doc, terms, case, sigs)
            n += 1
            if k % 6 == 2 and not case.get('simple_dtd'):
                t_ = doc.text(terms[0], terms[1], terms[2], '\n' if terms[0] != '\n' else '')
                if all(ord(c) < 128 for c in t_):
                    cli_phase(ctx, t_, doc.charset, {'map': e['file'], 'gen_seed': seed, 'terms': list(terms)})
            ctx.sample({'map': label, 'terms': list(terms), 'segments': len(doc.recs), 'text_head': doc.text(*terms)[:400]})
    ctx.case(n=n, sigs=sorted(sigs))


def replay(ctx, case):
    install(ctx)
    if 'k' in case:
        doc, terms, case2, seed = build(ctx, case['entry'], case['label'], case['k'], case.get('gen_seed'))
        judge(ctx, doc, terms, case2, set())
        return
    doc = gen_doc.gen_document(case['entry'], case['gen_seed'], **case['params'])
    if case.get('ta1'):
        doc = gen_doc.add_ta1(doc, case['ta1'])
    judge(ctx, doc, tuple(case['terms']), case, set())
