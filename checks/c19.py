"""C19 - HTML report shows every segment and error, with all source data escaped."""
import html
import html.parser
import re
import zlib

from vlib import corpus, faults, gen_doc, mutate, pipeline, reencode, ref_token
from vlib.worker import exc_key

PROPERTY = 'C19'
LEVEL = 'exploration'
RULE = ('Documents: fixtures; generated documents (charset E, markup-rich value pool) valid or with 1-6 catalogue faults chosen so that offending values are echoed in messages (bad codes, '
        'too-long values, unknown segments) and with markup canaries (<i>x</i>, <script>, &amp;, "onx=, ]]>) planted in data; other delimiters; many errors on one segment; structural mutants; '
        '1-2 interchanges. The HTML from x12n_document(fd_html=...) is tokenised with html.parser. Oracles: the document opens and closes and every tag / attribute belongs to the template\'s '
        'whitelist; the span.seg lines, unescaped and with error spans flattened, are exactly the source segments in order with line numbers 1..n, once each; every segment- and element-level '
        'message of the captured error tree appears (after unescaping) directly before or after the line of its segment; nothing planted in data surfaces as a tag or as an entity of its own. '
        'non-trivial = distinct documents whose error messages echo >=1 markup canary.')
ASSUMPTIONS = ['a segment without any element is listed as "SEG*~" by design of the formatter (don\'t-care)', 'messages of interchange/group/set level errors are not located (the property names segment- and element-level errors)',
               'blanks are rendered as &nbsp;: U+00A0 and U+0020 are identified when comparing']
REQUIRED_COUNTERS = ['docs:with-TA1', 'docs:composite-level-findings-with-markup-separator', 'docs:cut-off-with-markup-in-control-numbers', 'cli:invocations', 'cli:reports-compared', 'docs:envelope-element-findings', 'inputs:envelope-soup', 'docs', 'docs:with-errors', 'seg-lines-compared', 'messages-located', 'messages-with-format-directive', 'messages-with-canary', 'docs:multi-interchange', 'docs:other-delimiters']
MIN_CASES = {'quick': 500, 'thorough': 15000}
WATCHDOG_S = {'quick': 1200, 'thorough': 7200}

TAGS = {'html', 'head', 'title', 'style', 'link', 'body', 'h1', 'h3', 'p', 'div', 'span', 'br', 'a'}
ATTRS = {'class', 'style', 'rel', 'href', 'type'}
CLASSES = {'seg', 'error', 'info', 'ele_err', 'segs'}
CANARIES = ['<i>x</i>', '<script>alert(1)</script>', '&amp;', '"onx=', "'><b>", '&lt;b&gt;', ']]>', '&#60;', '<!--', '</span>', '<br />', '&nbsp;',
            '%s', '%Z', '%%', '%(x)d', '100% ', '{0}', '{x!r}', '\\n', '$1']      # ... and text that is a directive for some formatting or templating step


class P(html.parser.HTMLParser):
    def __init__(self):
        html.parser.HTMLParser.__init__(self, convert_charrefs=True)
        self.items = []         # ('seg'|'error'|'info', text)
        self.stack = []
        self.bad = []
        self.cur = None
        self.closed_html = False
        self.opened_html = False
        self.comments = 0
        self.in_style = False

    def handle_starttag(self, tag, attrs):
        if tag not in TAGS:
            self.bad.append(('tag', tag))
        for k, v in attrs:
            if k not in ATTRS:
                self.bad.append(('attr', k))
            if k == 'class' and v not in CLASSES:
                self.bad.append(('class', v))
        if tag == 'html':
            self.opened_html = True
        if tag == 'style':
            self.in_style = True
        if tag in ('br', 'link', 'p'):
            return
        self.stack.append(tag)
        if tag == 'span':
            cls = dict(attrs).get('class')
            if self.cur is None and cls in ('seg', 'error', 'info'):
                self.cur = [cls, [], len(self.stack)]
            elif self.cur is not None and cls != 'ele_err':
                self.bad.append(('nested-span', cls))

    def handle_endtag(self, tag):
        if tag in ('br', 'link', 'p'):
            return
        if tag == 'style':
            self.in_style = False
        if not self.stack or self.stack[-1] != tag:
            self.bad.append(('unbalanced', tag))
            if tag in self.stack:
                while self.stack and self.stack[-1] != tag:
                    self.stack.pop()
            else:
                return
        if self.cur is not None and tag == 'span' and len(self.stack) == self.cur[2]:
            self.items.append((self.cur[0], ''.join(self.cur[1])))
            self.cur = None
        self.stack.pop()
        if tag == 'html':
            self.closed_html = True

    def handle_data(self, data):
        if self.cur is not None:
            self.cur[1].append(data)

    def handle_comment(self, data):
        if not self.in_style:
            self.comments += 1
            self.bad.append(('comment', data[:30]))

    def handle_decl(self, decl):
        self.bad.append(('decl', decl[:30]))

    def handle_pi(self, data):
        self.bad.append(('pi', data[:30]))

    def unknown_decl(self, data):
        self.bad.append(('unknown-decl', data[:30]))


def nb(s):
    return s.replace('\xa0', ' ')


def judge(ctx, text, charset, case, sigs):
    res = pipeline.validate(text, charset=charset, ack=False, html=True)
    if res.exc is not None:
        ctx.count('not-completed:' + type(res.exc).__name__)
        return
    doc_html = res.html or ''
    if res.verdict is False and doc_html == '' and not res.errors:
        ctx.count('refused-not-an-interchange')      # no report is written for input the reader refuses
        return
    ctx.count('docs')
    errors = res.errors or []
    if errors:
        ctx.count('docs:with-errors')
    p = P()
    try:
        p.feed(doc_html)
        p.close()
    except Exception as ex:
        ctx.viol('html:unparsable', 'html.parser cannot tokenise the report', case, {'exc': repr(ex)})
        return
    if not p.opened_html or not p.closed_html or p.stack:
        ctx.viol('html:incomplete', 'the report does not open and close as one complete document', case, {'open_tags_left': p.stack[:5], 'tail': doc_html[-200:]})
        return
    if p.bad:
        kinds = sorted(set(b[0] for b in p.bad))
        ctx.viol('html:markup-from-input', 'tags/attributes outside the template occur in the report (input introduced markup, or unbalanced structure)', case,
                 {'found': p.bad[:8]})
        return
    # ---- listing
    terms, pieces = ref_token.tokenize(text)
    seg_t, ele_t, sub_t = terms
    src = []
    for pc in pieces:
        if pc.blank_only:
            continue
        if pc.sid == 'ISA':
            body = ele_t.join(c[0] for c in pc.elements)
        else:
            body = ele_t.join(sub_t.join(c) for c in pc.elements)
        src.append((pc.sid, pc.sid + ele_t + body + seg_t, len(pc.elements)))
    seg_items = [(i, t) for i, (k, t) in enumerate(p.items) if k == 'seg']
    if len(seg_items) != len(src):
        ctx.viol('html:segment-count', 'the report does not list every source segment exactly once', case, {'listed': len(seg_items), 'source': len(src)})
        return
    line_pos = {}
    for n, ((idx, t), (sid, want, nel)) in enumerate(zip(seg_items, src), 1):
        ctx.count('seg-lines-compared')
        t = nb(t)
        head = '%d: ' % n
        if not t.startswith(head):
            ctx.viol('html:line-number', 'a segment line does not carry its ordinal', case, {'line': t[:60], 'expected_prefix': head})
            return
        got = t[len(head):]
        if got != nb(want) and nel > 0:
            ctx.viol('html:segment-text', 'stripping the markup does not recover the source segment', case, {'line': n, 'got': got[:300], 'expected': want[:300]})
            return
        line_pos[n] = idx
    # ---- messages next to their segment
    nlines = len(src)
    canary_msgs = 0
    # element-level findings on header / trailer elements hang on the loop's own node (ISA/IEA, GS/GE, ST/SE); the message names the element
    from vlib import ref_envelope as RE_
    try:
        proper = RE_.recount([(pc.sid, [sub_t.join(c) for c in pc.elements]) for pc in pieces if not pc.blank_only]).proper
    except Exception:
        proper = False
    for er in errors:
        if er[12] not in ('st', 'gs', 'isa') or er[0] != 'ele':
            continue
        if not proper:
            ctx.count('envelope-element-findings:skipped-envelope-not-properly-nested')      # the report's cursor is lost there: the err_iter findings cover that
            continue
        m_ = re.search(r'\((ISA|IEA|GS|GE|ST|SE)(\d\d)\)', er[13] or '')
        if not m_:
            ctx.count('envelope-element-findings:segment-not-named-in-message')
            continue
        sid = m_.group(1)
        try:
            isa = res.shape[er[1]]
            if er[12] == 'isa':
                line = isa['line_isa'] if sid == 'ISA' else isa['line_iea']
            elif er[12] == 'gs':
                g_ = isa['groups'][er[2]]
                line = g_['line_gs'] if sid == 'GS' else g_['line_ge']
            else:
                s_ = isa['groups'][er[2]]['sets'][er[3]]
                line = s_['line_st'] if sid == 'ST' else s_['line_se']
        except Exception:
            line = None
        if line is None or not (1 <= line <= nlines) or src[line - 1][0] != sid:
            ctx.count('envelope-element-findings:line-unknown')
            continue
        ctx.count('envelope-element-findings-located')
        lo = line_pos[line]
        hi = line_pos[line + 1] if line + 1 in line_pos else len(p.items)
        near = [nb(t) for (k, t) in p.items[lo + 1:hi] if k == 'error']
        if not any(nb(er[13]) in t for t in near):
            anywhere = any(nb(er[13]) in nb(t) for (k, t) in p.items if k == 'error')
            ordinal = 'first' if (er[12] == 'st' and er[3] == 0 and er[2] == 0 and er[1] == 0) or (er[12] == 'gs' and er[2] == 0 and er[1] == 0) or (er[12] == 'isa' and er[1] == 0) else 'later'
            ctx.viol('html:envelope-element-message-not-next-to-segment:%s:%s:%s-loop-of-its-kind' % (sid, 'misplaced' if anywhere else 'missing', ordinal),
                     'the message of an element-level error on a header / trailer element is not shown next to that segment', case,
                     {'line': line, 'message': (er[13] or '')[:200], 'near': near[:4]})
            return
    for er in errors:
        if er[12] != 'seg':
            continue
        line = er[6]
        msg = er[13]
        if line is None or not (1 <= line <= nlines):
            ctx.count('errors-with-line-out-of-range')
            continue
        lo = line_pos[line - 1] if line - 1 in line_pos else -1
        hi = line_pos[line + 1] if line + 1 in line_pos else len(p.items)
        reader_level = er[9] in ('SEG1', '8') or msg.startswith(('Segment contains', 'Segment identifier', 'Segment "'))
        if reader_level:
            # the reader's findings about an envelope segment (SE, GE, ...) hang on the error node of the body segment before it:
            # the report shows them under the envelope segment, one line further down (C05/C03 look at the tree side of this)
            hi = line_pos[line + 2] if line + 2 in line_pos else len(p.items)
        near = [nb(t) for (k, t) in p.items[lo + 1:hi] if k == 'error']
        ctx.count('messages-located')
        m = nb(msg)
        has_canary = any(c in msg for c in CANARIES)
        if has_canary:
            canary_msgs += 1
            ctx.count('messages-with-canary')
            if any(c in msg for c in ('%s', '%Z', '%%', '%(x)d', '100% ')):
                ctx.count('messages-with-format-directive')
        if not any(m in t for t in near):
            anywhere = any(m in nb(t) for (k, t) in p.items if k == 'error')
            where = cursor_state(res.shape, er, line, [x[0] for x in src])
            if reader_level and where == 'cursor-can-reach' and any(src[q - 1][0] in ('ST', 'SE', 'GE', 'IEA', 'GS', 'ISA') for q in (line, line + 1) if 1 <= q <= nlines):
                # the reader's finding about an envelope segment hangs on the error node of the body segment before it (C05 finding);
                # if that node was already rendered, the message never shows
                where = 'reader-finding-about-envelope-segment'
            key = 'html:message-not-next-to-segment:%s' % where
            if where == 'cursor-can-reach':
                key += ':%s:%s' % ('misplaced' if anywhere else 'missing', er[0])
            ctx.viol(key, 'the message of a %s-level error is not shown next to its segment' % er[0], case,
                     {'line': line, 'message': msg[:200], 'near': near[:4], 'interchange_ordinal': er[1]})
            return
    if len([1 for pc in pieces if pc.sid == 'ISA']) > 1:
        ctx.count('docs:multi-interchange')
    if (seg_t, ele_t, sub_t) != ('~', '*', ':'):
        ctx.count('docs:other-delimiters')
    if canary_msgs:
        sigs.add('%08x' % zlib.crc32(text.encode('utf-8', 'replace')))


def cursor_state(shape, er, line, ids):
    """Can the report's cursor over the error tree still reach the node this error hangs on?
    It cannot when the set was already closed (or superseded by a later set) when the error arrived, or when an earlier
    set/group/interchange never closed (the cursor only climbs out of closed loops)."""
    ii, gi, si = er[1], er[2], er[3]
    order = []
    for a, isa in enumerate(shape):
        order.append((('isa', a), isa['closed'], isa['line_isa'], isa['line_iea']))
        for b, gs in enumerate(isa['groups']):
            order.append((('gs', a, b), gs['closed'], gs['line_gs'], gs['line_ge']))
            for c, st in enumerate(gs['sets']):
                order.append((('st', a, b, c), st['closed'], st['line_st'], st['line_se']))
    me = ('st', ii, gi, si)
    keys = [o[0] for o in order]
    if me not in keys:
        return 'no-set-node'
    k = keys.index(me)
    mine = order[k]
    if mine[3] is not None and mine[3] <= line:
        return 'cursor-passed:set-already-closed'
    if mine[2] is not None and any(x in ('SE', 'GE', 'IEA') for x in ids[mine[2]:line - 1]):
        return 'cursor-passed:set-already-closed'      # a trailer between the set's ST and this segment closed it once already
    for anc in (('gs', ii, gi), ('isa', ii)):
        if anc in keys:
            a = order[keys.index(anc)]
            stop = ('GE', 'IEA') if anc[0] == 'gs' else ('IEA',)
            if a[2] is not None and any(x in stop for x in ids[a[2]:line - 1]):
                return 'cursor-passed:enclosing-loop-closed-early'     # an orphan GE/IEA closed the group/interchange before this segment
    if any(o[2] is not None and o[2] <= line for o in order[k + 1:]):
        return 'cursor-passed:later-loop-already-open'
    if any((not o[1]) for o in order[:k] if o[0][0] == 'st' or (o[0][0] == 'gs' and o[0][1:] != (ii, gi)) or (o[0][0] == 'isa' and o[0][1] != ii)):
        return 'cursor-stuck:earlier-loop-never-closed'
    return 'cursor-can-reach'


def plant_canaries(rng, doc, n, terms=()):
    d = faults.clone(doc)
    usable = [c for c in CANARIES if not any(t in c for t in terms)]
    sites = [s for s in faults.element_sites(d, None) if faults._present(s[4]) and s[1].usage != 'N' and faults._plain_site(s[0], s[1], s[2], s[3], s[4], d)]
    rng.shuffle(sites)
    k = 0
    for (i, node, ep, sp, cur) in sites:
        if k >= n:
            break
        dt, mn, mx = gen_doc.dtype_of(node)
        if dt not in ('AN', 'ID'):
            continue
        c = rng.choice(usable)
        v = c
        if not (node.codes or node.external) and len(v) <= mx:
            v = v + 'Q' * (mx + 1 - len(v))      # too long => echoed in the message
        faults.set_value(d.recs[i], ep, sp, v)
        k += 1
    return d


ISA_ = 'ISA*00*          *00*          *ZZ*ZZ000          *ZZ*ZZ001          *030828*1128*U*00401*000010121*0*T*:~\n'
GS_ = 'GS*HC*ZZ000*ZZ001*20030828*1128*17*X*004010X098A1~\n'
BAD = 'BHT*0019*00*121231*20050802*1202*ZZ~\n'       # BHT06 not in its code list: an element error with a message
DIRECTED = [
    # pinned witnesses of the listed findings (deterministic, independent of VERIF_SEED)
    ('set-never-closed-then-error', ISA_ + GS_ + 'ST*837*0001~\nBHT*0019*00*121231*20050802*1202*CH~\nST*837*0002~\n' + BAD + 'SE*3*0002~\nGE*2*17~\nIEA*1*000010121~\n'),
    ('unknown-segment-after-SE', ISA_ + GS_ + 'ST*837*0001~\nBHT*0019*00*121231*20050802*1202*CH~\nSE*3*0001~\nZZZ*X~\nGE*1*17~\nIEA*1*000010121~\n'),
    ('orphan-IEA-inside-group', ISA_ + GS_ + 'ST*837*0001~\nBHT*0019*00*121231*20050802*1202*CH~\nSE*3*0001~\nIEA*1*000010121~\nST*837*0002~\n' + BAD + 'SE*3*0002~\nGE*2*17~\nIEA*1*000010121~\n'),
    ('clean-two-sets-with-error', ISA_ + GS_ + 'ST*837*0001~\nBHT*0019*00*121231*20050802*1202*CH~\nSE*3*0001~\nST*837*0002~\n' + BAD + 'SE*3*0002~\nGE*2*17~\nIEA*1*000010121~\n'),
]


def cli_phase(ctx, texts):
    """the command-line front end (python -m pyx12.scripts.x12html -H f1 f2 ...) writes <file>.html for every input of ONE invocation; apart from the
    date line each must be the report the library writes for that input"""
    import os
    import subprocess
    import sys
    # an input the library refuses with an exception (no map for its type) ends the command-line run as well: only inputs it completes
    texts = [t for t in texts if pipeline.validate(t, charset='E', ack=False, html=True).exc is None]
    if len(texts) < 2:
        return
    d = os.path.join(ctx.scratch, 'c19-cli-%d' % ctx.shard)
    os.makedirs(d, exist_ok=True)
    for f in os.listdir(d):
        os.unlink(os.path.join(d, f))
    paths = []
    for i, t in enumerate(texts):
        pth = os.path.join(d, 'in%d.x12' % i)
        with open(pth, 'w', encoding='ascii', newline='') as fd:
            fd.write(t)
        paths.append(pth)
    p = subprocess.run([sys.executable, '-m', 'pyx12.scripts.x12html', '-q', '-H'] + paths, stdout=subprocess.PIPE, stderr=subprocess.PIPE,
                       env=dict(os.environ, PYTHONWARNINGS='ignore'), timeout=300, cwd=d)
    ctx.count('cli:invocations')
    strip = lambda h: '\n'.join(l for l in h.split('\n') if 'Analysis Date:' not in l)
    for i, (t, pth) in enumerate(zip(texts, paths)):
        res = pipeline.validate(t, charset='E', ack=False, html=True)
        if res.exc is not None:
            continue
        out = pth + '.html'
        got = open(out, encoding='utf-8', errors='replace', newline='').read() if os.path.exists(out) else ''
        ctx.count('cli:reports-compared')
        if strip(got) != strip(res.html or ''):
            a, b = strip(got), strip(res.html or '')
            k = next((j for j, (x, y) in enumerate(zip(a + '\0', b + '\0')) if x != y), None)
            ctx.viol('cli:html-differs:file-%s-of-several' % ('first' if i == 0 else 'later'), 'the report written by the command-line front end differs from the report the library writes for the same input',
                     {'cli': True, 'file_index': i, 'files': len(texts), 'text': t if len(t) < 60000 else None},
                     {'cli_len': len(a), 'library_len': len(b), 'first_difference_at': k, 'cli_there': a[k:k + 160] if k is not None else None, 'library_there': b[k:k + 160] if k is not None else None,
                      'stderr': p.stderr.decode('ascii', 'replace')[-200:]})


def run(ctx):
    recent = []
    sigs = set()
    n = 0
    fx = corpus.fixtures()
    if ctx.shard == 0:
        for name, text in DIRECTED:
            judge(ctx, text, 'E', {'directed': name, 'text': text, 'terms': ['~', '*', ':']}, sigs)
            ctx.count('directed')
            n += 1
    for name in sorted(fx):
        if ctx.mine(('fx', name)):
            judge(ctx, fx[name], 'E', {'fixture': name, 'text': fx[name][:4000]}, sigs)
            n += 1
    entries = [e for e in gen_doc.index_entries() if e['file'] != '841.4010.XXXC.xml']
    per = (700 if ctx.quick else 20000) // ctx.nshards
    for k in range(per):
        rng = ctx.sub_rng('c19', ctx.shard, k)
        e = entries[(k * 3 + ctx.shard) % len(entries)]
        kw = dict(n_st=rng.choice([1, 2]), n_gs=rng.choice([1, 1, 2]), n_isa=rng.choice([1, 1, 2]), charset='E', rich=True, fill=rng.choice([0.2, 0.5]),
                  opt_prob=rng.choice([0.3, 0.6]), maxrep=1)
        terms = rng.choice([('~', '*', ':'), ('~', '*', ':'), ('!', '|', '}'), ('\n', '+', '\\'), ('!', '<', '>'), ('>', '|', '&'), ('~', '&', '<')])      # delimiters are input too
        kw['forbid'] = '~*:^' + ''.join(terms)
        try:
            doc = gen_doc.gen_document(e, rng.randrange(1 << 30), **kw)
        except gen_doc.GenFailed:
            continue
        if len(doc.recs) > 250:
            continue
        fam = rng.choice(['valid', 'faults', 'faults', 'canaries', 'canaries', 'mutated', 'soup', 'envelope-elements', 'cut-off-with-markup-in-control-numbers'])
        kinds = [fam]
        if fam in ('faults', 'mutated'):
            for _ in range(rng.randint(1, 6)):
                f = faults.inject(rng, doc, kind=rng.choice(['bad_code', 'too_long', 'unknown_segment', 'bad_char', 'missing_required', 'syntax', 'too_many_elements', 'max_use', 'missing_segment', None]))
                if f is not None:
                    doc = f.doc
                    kinds.append(f.kind)
        if terms[2] in '<>&' and fam in ('valid', 'faults', 'canaries'):
            # the component separator is a markup character: findings about a composite AS A WHOLE (too many components, a simple element that
            # holds the separator) make the renderer treat that composite specially - its separators are input like everything else
            f = faults.inject(rng, doc, kind='too_many_components')
            if f is not None:
                doc = f.doc
                kinds.append('too_many_components')
            sites_ = [x for x in faults.element_sites(doc, None) if x[3] is None and x[1].kind == 'ele' and faults._present(x[4]) and x[1].usage != 'N'
                      and faults._plain_site(x[0], x[1], x[2], x[3], x[4], doc) and gen_doc.dtype_of(x[1])[0] == 'AN' and not x[1].codes and not x[1].external]
            if sites_:
                i2, n2, ep2, sp2, c2 = rng.choice(sites_)
                doc = faults.clone(doc)
                doc.recs[i2].vals[ep2 - 1] = ['FIFTH', 'THE']
                kinds.append('separator-inside-simple-element')
            ctx.count('docs:composite-level-findings-with-markup-separator')
        if fam == 'envelope-elements':
            # element-level findings on the header / trailer segments of SEVERAL sets and groups (too short ST02/SE02, impossible GS04, GS05):
            # every one of them must be shown next to its own segment, also in the second and third loop of a kind
            try:
                doc = gen_doc.gen_document(e, rng.randrange(1 << 30), **dict(kw, n_st=rng.choice([2, 3]), n_gs=rng.choice([1, 2])))
            except gen_doc.GenFailed:
                continue
            doc = faults.clone(doc)
            nst = 0
            for r in doc.recs:
                if r.node.id in ('ST', 'SE') and rng.random() < 0.8:
                    r.vals[1] = r.vals[1][-2:]                 # two characters: shorter than the minimum of 4, still equal in ST and SE
                    nst += 1
                if r.node.id == 'GS' and rng.random() < 0.7:
                    r.vals[3] = rng.choice(['20241301', '2024010'])
                if r.node.id == 'GS' and rng.random() < 0.4:
                    r.vals[4] = '2561'
            ctx.count('docs:envelope-element-findings')
        cut_off = False
        if fam == 'cut-off-with-markup-in-control-numbers':
            # the file breaks off before its trailers; the messages about the missing SE / GE / IEA (written at the end of the report) quote
            # ST02 / GS06 / ISA13, which here carry markup characters
            doc = faults.clone(doc)
            cn = ''.join(c for c in rng.choice(['00<&>1', '<i>7</i>', '<b>', '&lt;9', '1<2>3']) if c not in terms)
            for r in doc.recs:
                if r.node.id in ('ST', 'SE'):
                    r.vals[1] = cn
                elif r.node.id == 'GS':
                    r.vals[5] = cn[:9]
                elif r.node.id == 'GE':
                    r.vals[1] = cn[:9]
                elif r.node.id == 'ISA':
                    r.vals[12] = cn.ljust(9)[:9]
                elif r.node.id == 'IEA':
                    r.vals[1] = cn.ljust(9)[:9]
            cut_off = True
            ctx.count('docs:cut-off-with-markup-in-control-numbers')
        if fam == 'canaries':
            doc = plant_canaries(rng, doc, rng.randint(1, 5), terms)
        if k % 5 == 2 and fam != 'soup':
            # a segment of the interchange that stands outside every group: the interchange acknowledgement, after the ISA or before the IEA
            doc = gen_doc.add_ta1(doc, ['after-isa', 'before-iea'][(k // 5) % 2])
            if fam == 'canaries':
                r_ = [x for x in doc.recs if x.node.id == 'TA1'][0]
                r_.vals[1] = [c for c in CANARIES if not any(t in c for t in terms)][k % 7]         # a date that is none: echoed in its message
            kinds.append('ta1')
            ctx.count('docs:with-TA1')
        text = doc.text(terms[0], terms[1], terms[2], '\n' if terms[0] != '\n' else '')
        if cut_off:
            unit = terms[0] + ('\n' if terms[0] != '\n' else '')
            parts_ = text.split(unit)
            last_se = max((i_ for i_, x_ in enumerate(parts_) if x_.startswith('SE' + terms[1])), default=None)
            if last_se:
                text = unit.join(parts_[:last_se]) + unit          # everything from the last SE on is missing
        if fam == 'soup':
            text = mutate.envelope_soup(rng, e['icvn'])
            terms = ('~', '*', ':')
            ctx.count('inputs:envelope-soup')
        if fam == 'mutated':
            text, names = mutate.mutate(rng, text)
            kinds += names
            if any(x.startswith('truncate') for x in names):
                continue
        case = {'map': e['file'], 'family': kinds, 'terms': list(terms), 'k': ['c19', ctx.shard, k], 'text': text if len(text) < 150000 else None}
        judge(ctx, text, 'E', case, sigs)
        n += 1
        if all(ord(c) < 128 for c in text) and len(text) < 200000 and text[:3] == 'ISA':
            recent = (recent + [text])[-3:]
        if k % 20 == 19 and len(recent) >= 2:
            cli_phase(ctx, list(recent))
            n += 1
        ctx.sample({'map': e['file'], 'family': kinds, 'text_head': text[:300]})
    ctx.case(n=n, sigs=sorted(sigs))


def replay(ctx, case):
    text = case.get('text')
    if text is None:
        raise RuntimeError('case text not stored; re-run with the same VERIF_SEED')
    judge(ctx, text, 'E', case, set())
