"""C20 - the command-line normaliser preserves content, is idempotent and repairs counts."""
import os
import subprocess
import sys
import zlib

from vlib import corpus, faults, gen_doc, ref_envelope as RE, ref_token
from vlib.worker import exc_key

PROPERTY = 'C20'
LEVEL = 'exploration'
RULE = ('`python -m pyx12.scripts.x12norm` is run as a subprocess (one process per invocation) on files in a scratch directory: fixtures and small generated documents of every selectable '
        'map, written with several delimiter triples and line-break conventions, optionally with perturbed IEA01/GE01/SE01 counts (off by one, 0, non-numeric, empty) and HL01 numbers, under every '
        'combination of --eol, --fixcounting and output mode {stdout, --output FILE, --inplace}. Oracles: tokenised output == tokenised input (ids, values, delimiters); with --eol exactly one segment '
        'per line; normalising the output again with the same options is a byte-for-byte fixpoint; the three output modes produce the same bytes; with --fixcounting and inputs whose only '
        'defects are those counts/HL01 numbers the independent recount finds no such defect in the output and the only values that differ are IEA01/GE01/SE01/HL01. '
        'Every sixth step the last 2-3 inputs are also normalised in ONE invocation (separate arguments in place, to stdout, or through a glob pattern in place); each result must equal the single-file run. non-trivial = distinct (document, option set) pairs; for the repair part those with >=1 perturbed counter.')
ASSUMPTIONS = ['input files are ASCII (the tool opens files as ASCII by design); --output with several input files (each overwrites the last) is not judged',
               'a segment without any element is not generated (format() writes "SE*~" for "SE~")', 'the exit status and log lines on stderr are not judged']
REQUIRED_COUNTERS = ['inputs:control-number-used-twice-in-its-scope', 'inputs:segments-ending-in-blank-only-elements', 'perturbed:hl-numbers-and-parents-shifted-together', 'mode:output:over-existing-file', 'inputs:longer-than-one-read-buffer:inplace', 'inputs:longer-than-one-read-buffer:output', 'inputs:longer-than-one-read-buffer:stdout', 'invocations', 'mode:stdout', 'mode:output', 'mode:inplace', 'opt:eol', 'opt:fixcounting', 'idempotence-checked', 'repairs-checked', 'perturbed-counters', 'inputs:line-break-character-as-terminator', 'inputs:terminator-at-read-boundary', 'inputs:isa-field-ending-in-component-separator', 'inputs:trailer-whose-true-count-is-zero', 'multi-file-invocations', 'multi-file:later-output-shorter', 'multi-file:inplace', 'multi-file:stdout', 'multi-file:inplace-glob']
MIN_CASES = {'quick': 120, 'thorough': 3000}
WATCHDOG_S = {'quick': 1200, 'thorough': 7200}

TERMS = [('~', '*', ':'), ('!', '|', '>'), ('\x1c', '\x1d', '<'), ('$', '+', '\\'), ('\r', '*', ':'), ('\n', '|', '>')]      # a carriage return or line feed may be the terminator


def run_norm(ctx, path, eol, fix, mode, outpath=None):
    cmd = [sys.executable, '-m', 'pyx12.scripts.x12norm']
    if eol:
        cmd.append('-e')
    if fix:
        cmd.append('-f')
    if mode == 'output':
        cmd += ['-o', outpath]
    elif mode == 'inplace':
        cmd.append('-i')
    cmd.append(path)
    env = dict(os.environ)
    env['PYTHONWARNINGS'] = 'ignore'
    p = subprocess.run(cmd, stdout=subprocess.PIPE, stderr=subprocess.PIPE, env=env, timeout=120, cwd=ctx.scratch)
    ctx.count('invocations')
    out = p.stdout.decode('ascii', 'replace')
    if mode == 'output':
        text = open(outpath, encoding='ascii', newline='').read() if os.path.exists(outpath) else None
    elif mode == 'inplace':
        text = open(path, encoding='ascii', newline='').read()
    else:
        text = out
    return p.returncode, text, out, p.stderr.decode('ascii', 'replace')[-600:]


def perturb(rng, doc):
    d = faults.clone(doc)
    n = 0
    if rng.random() < 0.35:
        # a subtree was cut out of the hierarchy: from some HL on, the numbers AND the parent references that point at renumbered levels are
        # shifted together - wrong number and (for the reader's own count) unknown parent on the same segment
        hls = [r for r in d.recs if r.node.id == 'HL']
        if len(hls) >= 3:
            k0 = rng.randrange(1, len(hls) - 1)
            first_shifted = int(hls[k0].vals[0]) if hls[k0].vals[0].isdigit() else None
            if first_shifted is not None:
                for r in hls[k0:]:
                    if r.vals[0].isdigit() and int(r.vals[0]) >= first_shifted:
                        r.vals[0] = str(int(r.vals[0]) + 2)
                        n += 1
                    if len(r.vals) > 1 and isinstance(r.vals[1], str) and r.vals[1].isdigit() and int(r.vals[1]) >= first_shifted:
                        r.vals[1] = str(int(r.vals[1]) + 2)
                d.meta['hl_shifted'] = True
                return d, n
    for r in d.recs:
        if r.node.id in ('SE', 'GE', 'IEA') and rng.random() < 0.5:
            r.vals[0] = rng.choice([str(int(r.vals[0]) + 1), '0', 'X', '', '999'])
            n += 1
        if r.node.id == 'HL' and rng.random() < 0.3:
            r.vals[0] = rng.choice([str(int(r.vals[0]) + 3), '0', 'A'])
            n += 1
    return d, n


def norms(text):
    terms, pieces = ref_token.tokenize(text)
    return terms, [p.normal() for p in pieces if not p.blank_only]


def judge(ctx, text, meta, eol, fix, mode, nperturbed, sigs):
    case = dict(meta, options={'eol': eol, 'fixcounting': fix, 'mode': mode}, text=text if len(text) < 150000 else None)
    src = os.path.join(ctx.scratch, 'c20-in-%d.x12' % ctx.shard)
    outp = os.path.join(ctx.scratch, 'c20-out-%d.x12' % ctx.shard)
    for f in (src, outp):
        if os.path.exists(f):
            os.unlink(f)
    with open(src, 'w', encoding='ascii', newline='') as fd:
        fd.write(text)
    if mode == 'output' and zlib.crc32(text.encode('ascii', 'replace')) % 2:
        # the name given to --output is in use already (what an earlier run left there, longer than what this run writes): it is replaced
        with open(outp, 'w', encoding='ascii', newline='') as fd:
            fd.write(text + text)
        ctx.count('mode:output:over-existing-file')
        case['output_file_existed'] = True
    ctx.count('mode:' + mode)
    if eol:
        ctx.count('opt:eol')
    if fix:
        ctx.count('opt:fixcounting')
    try:
        rc, got, stdout, err = run_norm(ctx, src, eol, fix, mode, outp)
    except subprocess.TimeoutExpired:
        ctx.viol('norm:timeout', 'x12norm did not finish within 120 s', case, {})
        return
    if rc != 0 or got is None:
        last = err.strip().splitlines()[-1] if err.strip() else ''
        ctx.viol('norm:failed:%s' % (last.split(':')[0][:40] or 'rc=%d' % rc), 'x12norm failed on a readable interchange', case, {'rc': rc, 'stderr': err})
        return
    if mode != 'stdout' and stdout.strip() != '':
        ctx.viol('norm:stdout-not-empty:%s' % mode, 'with --output/--inplace the document was also written to stdout', case, {'stdout_head': stdout[:200]})
    if got == '' or (mode == 'output' and got == ''):
        ctx.viol('norm:empty-output:%s' % mode, 'x12norm produced no output at all', case, {'stderr': err})
        return
    try:
        t_in, n_in = norms(text)
        t_out, n_out = norms(got)
    except Exception as ex:
        ctx.viol('norm:output-not-an-interchange:%s' % mode, 'the output cannot be tokenised as an interchange', case, {'head': got[:300], 'exc': repr(ex)})
        return
    if t_in != t_out:
        ctx.viol('norm:delimiters-changed', 'the output uses other delimiters than the input', case, {'in': t_in, 'out': t_out})
        return
    seg_t, ele_t, sub_t = t_in
    # content
    allowed = {'SE': [0], 'GE': [0], 'IEA': [0], 'HL': [0]} if fix else {}
    if len(n_in) != len(n_out):
        ctx.viol('norm:segment-count', 'the output has a different number of segments', case, {'in': len(n_in), 'out': len(n_out), 'tail': got[-200:]})
        return
    changed = []
    for i, (a, b) in enumerate(zip(n_in, n_out)):
        if a == b:
            continue
        if a[0] == b[0] and a[0] in allowed:
            ea, eb = list(a[1]), list(b[1])
            while len(ea) < len(eb):
                ea.append([''])
            while len(eb) < len(ea):
                eb.append([''])
            diff = [k for k in range(len(ea)) if ea[k] != eb[k]]
            if all(k in allowed[a[0]] for k in diff):
                changed.append((i, a[0]))
                continue
        ctx.viol('norm:content-changed%s' % (':with-fixcounting' if fix else ''), 'a segment of the output differs from the input beyond what the options allow', case,
                 {'index': i, 'in': a, 'out': b})
        return
    # layout
    if eol:
        # every terminator is followed by exactly one line feed, and the next segment starts right after it (data may itself contain line feeds)
        parts = got.split(seg_t)
        if seg_t != '\n' and (parts[-1] != '\n' or any(not q.startswith('\n') or q.startswith('\n\n') or q.startswith('\n\r') for q in parts[1:-1]) or parts[0].startswith('\n')):
            ctx.viol('norm:eol-layout', 'with --eol the output is not exactly one segment per line', case, {'head': got[:300]})
            return
    # fixpoint
    src2 = os.path.join(ctx.scratch, 'c20-in2-%d.x12' % ctx.shard)
    with open(src2, 'w', encoding='ascii', newline='') as fd:
        fd.write(got)
    rc2, got2, so2, err2 = run_norm(ctx, src2, eol, fix, 'stdout')
    ctx.count('idempotence-checked')
    if rc2 != 0 or got2 != got:
        ctx.viol('norm:not-idempotent', 'normalising the output again changes it', case, {'first': got[:400], 'second': (got2 or '')[:400], 'rc': rc2})
        return
    # repair
    if fix:
        # (also when nothing was perturbed: counts that were right must still be right afterwards)
        ctx.count('repairs-checked')
        ctx.count('perturbed-counters', nperturbed or 0)
        rc_out = RE.recount([(sid, [c[0] if len(c) == 1 else sub_t.join(c) for c in els]) for sid, els in n_out])
        left = [m for m in rc_out.must if (m[1], m[2]) in (('st', '4'), ('gs', '5'), ('isa', '021'), ('seg', 'HL1'))]      # (gs 4 is an id mismatch, not a count)
        if left:
            ctx.viol('norm:counts-not-repaired:%s' % ','.join(sorted(set('%s/%s' % (m[1], m[2]) for m in left))), 'after --fixcounting the recount still finds count/sequence defects', case,
                     {'left': left[:6], 'out_tail': got[-300:]})
    sigs.add('%08x|%s%s%s' % (zlib.crc32(text.encode()), 'e' if eol else '', 'f' if fix else '', mode))


def multi(ctx, texts, eol, fix, how, meta):
    """several input files in ONE invocation (separate arguments or one glob pattern): every file must come out exactly as when it is normalised alone"""
    case = dict(meta, options={'eol': eol, 'fixcounting': fix, 'mode': how}, texts=[t if len(t) < 60000 else None for t in texts])
    d = os.path.join(ctx.scratch, 'c20-multi-%d' % ctx.shard)
    os.makedirs(d, exist_ok=True)
    for f in os.listdir(d):
        os.unlink(os.path.join(d, f))
    alone = []
    for i, t in enumerate(texts):
        pth = os.path.join(d, 'alone.x12')
        with open(pth, 'w', encoding='ascii', newline='') as fd:
            fd.write(t)
        rc, got, so, err = run_norm(ctx, pth, eol, fix, 'stdout')
        os.unlink(pth)
        if rc != 0:
            return      # judged by the single-file part
        alone.append(got)
    paths = []
    for i, t in enumerate(texts):
        pth = os.path.join(d, 'in%d.x12' % i)
        with open(pth, 'w', encoding='ascii', newline='') as fd:
            fd.write(t)
        paths.append(pth)
    cmd = [sys.executable, '-m', 'pyx12.scripts.x12norm'] + (['-e'] if eol else []) + (['-f'] if fix else [])
    if how in ('inplace', 'inplace-glob'):
        cmd.append('-i')
    cmd += [os.path.join(d, 'in*.x12')] if how == 'inplace-glob' else paths
    p = subprocess.run(cmd, stdout=subprocess.PIPE, stderr=subprocess.PIPE, env=dict(os.environ, PYTHONWARNINGS='ignore'), timeout=300, cwd=ctx.scratch)
    ctx.count('invocations')
    ctx.count('multi-file-invocations')
    ctx.count('multi-file:' + how)
    if any(len(a) > len(b) for a, b in zip(alone, alone[1:])):
        ctx.count('multi-file:later-output-shorter')
    if p.returncode != 0:
        ctx.viol('norm:multi:failed', 'x12norm failed on several readable interchanges given at once', case, {'rc': p.returncode, 'stderr': p.stderr.decode('ascii', 'replace')[-400:]})
        return
    if how == 'stdout':
        got = p.stdout.decode('ascii', 'replace')
        if got != ''.join(alone):
            ctx.viol('norm:multi:stdout-differs', 'several files normalised to stdout are not the concatenation of the files normalised one by one', case,
                     {'got_len': len(got), 'expected_len': sum(len(a) for a in alone), 'got_tail': got[-200:]})
        return
    for i, (pth, a) in enumerate(zip(paths, alone)):
        got = open(pth, encoding='ascii', newline='').read()
        if got != a:
            k = next((j for j, (x, y) in enumerate(zip(got + '\0', a + '\0')) if x != y), None)
            ctx.viol('norm:multi:%s:file-differs-from-single-run' % how, 'a file normalised together with others differs from the same file normalised alone', case,
                     {'file_index': i, 'got_len': len(got), 'expected_len': len(a), 'first_difference_at': k, 'got_there': got[k:k + 120] if k is not None else None})
            return


def run(ctx):
    recent = []
    sigs = set()
    n = 0
    fx = corpus.fixtures()
    names = sorted(fx)
    entries = [e for e in gen_doc.index_entries() if e['file'] != '841.4010.XXXC.xml']
    per = (200 if ctx.quick else 5000) // ctx.nshards
    modes = ['stdout', 'output', 'inplace']
    for k in range(per):
        rng = ctx.sub_rng('c20', ctx.shard, k)
        eol = bool(k % 2)
        fix = bool((k // 2) % 2)
        mode = modes[(k // 4 + ctx.shard) % 3]
        nper = 0
        if k % 5 == 4:
            name = names[(k + ctx.shard) % len(names)]
            text = fx[name]
            if not all(ord(c) < 128 for c in text):
                continue
            if fix:
                # fixtures carry arbitrary other defects; content oracle still applies, repair oracle does not
                pass
            meta = {'fixture': name}
        else:
            e = entries[(k * 3 + ctx.shard) % len(entries)]
            terms = TERMS[k % len(TERMS)]
            big = (k % 3 == 2)
            try:
                if big:
                    doc = gen_doc.gen_document(e, rng.randrange(1 << 30), fill=0.5, opt_prob=0.8, maxrep=2, charset='E', rich=False, n_st=3, n_gs=2, n_isa=1, forbid='~*:^' + ''.join(terms))
                else:
                    doc = gen_doc.gen_document(e, rng.randrange(1 << 30), fill=0.3, opt_prob=0.5, maxrep=2, charset='E', rich=(k % 3 == 0), n_st=rng.choice([1, 2]),
                                               n_gs=rng.choice([1, 2]), n_isa=rng.choice([1, 1, 2]), forbid='~*:^' + ''.join(terms))
            except gen_doc.GenFailed:
                continue
            if len(doc.recs) > (2500 if big else 300):
                continue
            if big and len(doc.text()) > 8298:
                ctx.count('inputs:longer-than-one-read-buffer:' + mode)
            if k % 4 in (1, 2):
                # control numbers used twice in their scope (sets of one group, groups of one interchange): a content finding that is none of the
                # tool's business - what it counts is sets and groups, not distinct numbers
                doc = faults.clone(doc)
                last_ = {}
                dup_ = 0
                for r_ in doc.recs:
                    hid_ = {'ST': 1, 'GS': 5}.get(r_.node.id)
                    if r_.node.id == 'ISA':
                        last_.pop('GS', None)
                    if r_.node.id == 'GS':
                        last_.pop('ST', None)
                    if hid_ is not None:
                        if r_.node.id in last_:
                            old_ = r_.vals[hid_]
                            r_.vals[hid_] = last_[r_.node.id]
                            tr_ = {'ST': 'SE', 'GS': 'GE'}[r_.node.id]
                            for q_ in doc.recs[doc.recs.index(r_) + 1:]:
                                if q_.node.id == tr_ and q_.vals[1] == old_:
                                    q_.vals[1] = r_.vals[hid_]
                                    break
                            dup_ += 1
                        last_[r_.node.id] = r_.vals[hid_]
                if dup_:
                    ctx.count('inputs:control-number-used-twice-in-its-scope')
            if fix and rng.random() < 0.8:
                doc, nper = perturb(rng, doc)
                if doc.meta.get('hl_shifted'):
                    ctx.count('perturbed:hl-numbers-and-parents-shifted-together')
            if k % 3 == 2:
                # fixed-width sources: the last element(s) of a segment made of blanks only - data like any other, they stay
                doc = faults.clone(doc)
                body_ = [r_ for r_ in doc.recs if faults.is_body(r_)]
                for r_ in rng.sample(body_, min(len(body_), 3)):
                    r_.vals = list(r_.vals) + [' ' * rng.randint(1, 5)] * rng.randint(1, 2)
                ctx.count('inputs:segments-ending-in-blank-only-elements')
            brk = rng.choice(['', '\n', '\r\n', '\n\n']) if terms[0] not in '\r\n' else ''
            if terms[0] in '\r\n':
                ctx.count('inputs:line-break-character-as-terminator')
            if k % 5 == 1:
                # the component separator is ordinary data inside the ISA, also as the LAST character of a field
                doc = faults.clone(doc)
                for r_ in doc.recs:
                    if r_.node.id == 'ISA':
                        r_.vals[rng.choice([1, 3, 5, 7])] = None
                        for q_ in (1, 3, 5, 7):
                            if r_.vals[q_] is None:
                                w_ = 10 if q_ in (1, 3) else 15
                                r_.vals[q_] = 'SECRET'.ljust(w_ - 1) + terms[2]
                ctx.count('inputs:isa-field-ending-in-component-separator')
            text = doc.text(terms[0], terms[1], terms[2], brk)
            if fix and rng.random() < 0.25:
                # a functional group without any transaction set (GE declares 1, the true count is 0) in front of the last IEA, whose own count is
                # thereby one short; or an interchange without any group appended (IEA declares 1): repairs whose right value is ZERO
                unit = terms[0] + brk
                segs_ = text.split(unit)
                gs_ = next((x for x in segs_ if x.startswith('GS' + terms[1])), None)
                isa_ = segs_[0]
                if gs_ is not None and rng.random() < 0.6:
                    g = gs_.split(terms[1])
                    g[6] = '987654'
                    j_ = max(i2 for i2, x in enumerate(segs_) if x.startswith('IEA' + terms[1]))
                    segs_[j_:j_] = [terms[1].join(g), terms[1].join(['GE', '1', '987654'])]
                    nper += 2
                else:
                    i_ = isa_.split(terms[1])
                    i_[13] = '000000999'
                    segs_[-1:-1] = [terms[1].join(i_), terms[1].join(['IEA', '1', '000000999'])]
                    nper += 1
                text = unit.join(segs_)
                ctx.count('inputs:trailer-whose-true-count-is-zero')
            if big and brk and len(text) > 9000:
                # a filler segment sized so that a terminator is the last character of the reader's first buffer fill (106 + 8192) and its line break
                # arrives with the next read; every other time the boundary falls between CR and LF
                unit = terms[0] + brk
                segs_ = text.split(unit)
                off = 0
                for i_, sg in enumerate(segs_):
                    if off > 7000:
                        break
                    off += len(sg) + len(unit)
                term_pos = off + len(segs_[i_])                      # index of the terminator of segment i_
                want = 106 + 8192 - 1                                    # terminator = last character of the first fill
                if brk == '\r\n' and k % 2:
                    want = 106 + 8192 - 2                                # terminator and CR inside the first fill, LF outside
                deficit = (want - term_pos) % 8192
                if deficit < len('K3' + terms[1] + 'Q' + unit):
                    deficit += 8192
                filler = 'K3' + terms[1] + 'Q' * (deficit - len('K3' + terms[1]) - len(unit))
                segs_.insert(i_, filler)
                text = unit.join(segs_)
                ctx.count('inputs:terminator-at-read-boundary')
            meta = {'map': e['file'], 'terms': list(terms), 'line_break': brk, 'perturbed': nper, 'k': ['c20', ctx.shard, k]}
        judge(ctx, text, meta, eol, fix, mode, nper, sigs)
        n += 1
        if all(ord(c) < 128 for c in text):
            recent = (recent + [text])[-3:]
        if k % 6 == 5 and len(recent) >= 2:
            group = sorted(recent, key=len, reverse=True) if k % 12 == 5 else list(recent)       # every other time the longest file first
            multi(ctx, group[:rng.choice([2, 3])], eol, fix, ['inplace', 'stdout', 'inplace-glob'][(k // 6 + ctx.shard) % 3], {'k': ['c20', ctx.shard, k], 'multi': True})
            n += 1
        ctx.sample(dict(meta, options=[eol, fix, mode], text_head=text[:200]))
    ctx.case(n=n, sigs=sorted(sigs))


def replay(ctx, case):
    if case.get('multi'):
        if any(t is None for t in case['texts']):
            raise RuntimeError('case texts not stored; re-run with the same VERIF_SEED')
        o = case['options']
        multi(ctx, case['texts'], o['eol'], o['fixcounting'], o['mode'], {'k': case.get('k'), 'multi': True})
        return
    text = case.get('text')
    if text is None:
        raise RuntimeError('case text not stored; re-run with the same VERIF_SEED')
    o = case['options']
    judge(ctx, text, {k: v for k, v in case.items() if k not in ('options', 'text')}, o['eol'], o['fixcounting'], o['mode'], case.get('perturbed', 0), set())
