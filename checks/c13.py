"""C13 - data-type recognisers accept exactly the X12 value languages (exhaustive bounded domain)."""
import itertools

from vlib import ref_values
from vlib.worker import exc_key

PROPERTY = 'C13'
LEVEL = 'exploration'
EXHAUSTIVE = {'quick': True, 'thorough': True}
RULE = ('Every (type, value, charset, icvn) of the bounded domain is evaluated by the real '
        'pyx12.validation.IsValidDataType and by the reference value languages (vlib/ref_values.py); '
        'domain: all strings <=6 over {0,5,9,-,.} and all digit strings <=4 for N0/N2/R; D8/DT for every '
        'year 1799-2101 x month 00-13 x day 00-32; D6/DT all yy x same; DT-12 = sample dates x all HHMM; '
        'RD8 with 0-3 hyphens over valid/invalid halves; TM all digit strings of length 0-4 plus boundary '
        'fields up to length 9 and non-digits; every single character 0-255 (+ a few beyond) alone and embedded '
        'for AN/ID x {B,E} x {00401,00501}; non-string values. The thorough tier adds all 6-digit times, all '
        '5-digit strings, two-character AN/ID strings and a wider DT-12 product. '
        'A second phase installs the same oracle as a record-only icontract postcondition on the real function (aliases re-bound, binding audit) and validates generated faulty documents, '
        'so the arguments real validation passes in are observed too. non-trivial = distinct (type, value, charset, icvn) tuples the reference rejects.')
ASSUMPTIONS = ['data types B (binary), empty and unknown type names are outside the property and not evaluated',
               'the reference languages are written from the property text: calendar via stdlib calendar.monthrange']
REQUIRED_COUNTERS = ['contract:evals', 'contract:documents', 'evals:N', 'evals:R', 'evals:DT', 'evals:D8', 'evals:D6', 'evals:RD8', 'evals:TM', 'evals:AN', 'evals:ID',
                     'ref-invalid', 'ref-valid']
MIN_CASES = {'quick': 500000, 'thorough': 4000000}

SETTINGS = [('B', '00401'), ('E', '00401'), ('B', '00501'), ('E', '00501')]


def dom_numeric(ctx):
    vals = ['']
    for n in range(1, 7):
        for t in itertools.product('059-.', repeat=n):
            vals.append(''.join(t))
    for n in range(1, 5 if ctx.quick else 6):
        for t in itertools.product('0123456789', repeat=n):
            vals.append(''.join(t))
    if not ctx.quick:
        for t in itertools.product('059-.', repeat=7):
            vals.append(''.join(t))
        for t in itertools.product('0-.1', repeat=8):
            vals.append(''.join(t))
    vals += ['-0', '+5', ' 5', '5 ', '5\n', '\n5', '1e5', '0x1', '٣', '5٣', '1,5', '--5', '5-', '.', '-.', '-.5', '5.', '-5.',
             '1.2.3', '５', '5\x00', '1' * 40, '-' + '9' * 40, '9' * 20 + '.' + '9' * 20]
    for v in vals:
        for dt in ('N', 'N0', 'N2', 'R'):
            yield (dt, v, 'B', '00401')
    # the implied-decimal types the shipped data dictionary does not happen to use are types all the same (N0 .. N9)
    for v in vals[:4000] + vals[-40:]:
        for dt in ('N1', 'N3', 'N4', 'N5', 'N6', 'N7', 'N8', 'N9'):
            yield (dt, v, 'B', '00401')


def dom_dates(ctx):
    for y in range(1799, 2102):
        for m in range(0, 14):
            for d in range(0, 33):
                s = '%04d%02d%02d' % (y, m, d)
                yield ('D8', s, 'B', '00401')
                yield ('DT', s, 'B', '00401')
    for y in (0, 1, 999, 1000, 1700, 1799, 1800, 1900, 2000, 2400, 3000, 9999):
        for m in (0, 1, 2, 12, 13, 99):
            for d in (0, 1, 28, 29, 30, 31, 32, 99):
                s = '%04d%02d%02d' % (y, m, d)
                yield ('D8', s, 'B', '00401')
                yield ('DT', s, 'B', '00401')
    for yy in range(0, 100):
        for m in range(0, 14):
            for d in range(0, 33):
                s = '%02d%02d%02d' % (yy, m, d)
                yield ('D6', s, 'B', '00401')
                yield ('DT', s, 'B', '00401')
    # wrong lengths / shapes
    odd = ['', '2', '20', '200', '2000', '20000', '2000010', '200001011', '2000010112', '20000101123', '2000010112345',
           '20000101 ', ' 20000101', '2000-01-01', '2000010a', 'a0000101', '20000101\n', '\n20000101', '2000٣101',
           '000101', '00010a', '0001011', '00010', '-0000101', '+2000101', '2000.101', '20000101' * 2, '200001011200\n',
           '2000010112000', '20000101120', '2000010112a0', '20000101-200', '200001011260', '200001012400', '200001010000']
    for s in odd:
        for dt in ('D8', 'D6', 'DT'):
            yield (dt, s, 'B', '00401')
    dates = ['20000101', '20000229', '19000229', '20010229', '21000229', '24000229', '18000101', '17991231', '20001301',
             '20000132', '20000431', '20000430', '99991231', '00000000', '20000100', '20000001']
    if not ctx.quick:
        dates += ['%04d%02d%02d' % (y, m, d) for y in (1800, 1900, 1904, 2000, 2023, 2024, 2100) for m in (1, 2, 4, 6, 11, 12) for d in (28, 29, 30, 31)]
    for dte in dates:
        for hm in range(0, 10000):
            yield ('DT', dte + '%04d' % hm, 'B', '00401')


def dom_rd8(ctx):
    halves = ['20000101', '20000229', '19000229', '20001301', '20000132', '17991231', '18000101', '2000010', '200001011', '',
              '000101', '2000010a', '99991231', '20000431', ' 2000010', '20000101 ']
    for a in halves:
        for b in halves:
            yield ('RD8', a + '-' + b, 'B', '00401')
            yield ('RD8', a + b, 'B', '00401')
            yield ('RD8', a + '--' + b, 'B', '00401')
            yield ('RD8', a + '-' + b + '-', 'B', '00401')
            yield ('RD8', '-' + a + '-' + b, 'B', '00401')
            for c in halves[:6]:
                yield ('RD8', a + '-' + b + '-' + c, 'B', '00401')
                yield ('RD8', a + '-' + b + '-' + c + '-' + a, 'B', '00401')
    for s in ('-', '--', '---', '20000101-20000102\n', '20000101–20000102', '20000101 - 20000102', '20000101_20000102'):
        yield ('RD8', s, 'B', '00401')


def dom_time(ctx):
    yield ('TM', '', 'B', '00401')
    for n in range(1, 5):
        for t in itertools.product('0123456789', repeat=n):
            yield ('TM', ''.join(t), 'B', '00401')
    f2 = ['00', '01', '09', '10', '19', '20', '23', '24', '29', '30', '59', '60', '61', '69', '70', '99']
    tails = ['', '0', '5', '9', '00', '09', '99', '000', '999', '0000']
    for h in f2:
        for m in f2:
            for s in f2:
                for tl in tails:
                    yield ('TM', h + m + s + tl, 'B', '00401')
            for x in '0123456789':
                yield ('TM', h + m + x, 'B', '00401')
    for s in ('12:00', '1200 ', ' 1200', '12.00', '120000.5', '1200\n', '\n1200', '12a0', 'a200', '12000a', '1200000a', '-1200', '+1200',
              '12٣00', '1200\x00', '12' * 10, '2' * 9, '0' * 9, '23595999', '235959990', '24000000', '1260', '126000'):
        yield ('TM', s, 'B', '00401')
    if not ctx.quick:
        for n in (5, 6):
            for t in itertools.product('0123456789', repeat=n):
                yield ('TM', ''.join(t), 'B', '00401')


def dom_chars(ctx):
    codes = list(range(0, 256)) + [0x100, 0x131, 0x2013, 0x20ac, 0x663, 0xff21, 0x1f600]
    for (cs, icvn) in SETTINGS:
        for dt in ('AN', 'ID'):
            yield (dt, '', cs, icvn)
            for c in codes:
                ch = chr(c)
                yield (dt, ch, cs, icvn)
                yield (dt, 'A' + ch, cs, icvn)
                yield (dt, ch + 'Z9', cs, icvn)
                yield (dt, 'AB ' + ch + ' YZ', cs, icvn)
            for s in ('HELLO WORLD', 'hello', 'A' * 300, 'a' * 300, 'A\nB', 'A\r\nB', 'TAB\tX', 'MIX3D-UP/OK.', '^', '`', 'x^y`z', '~*:', '{}[]|\\<>#$%@_'):
                yield (dt, s, cs, icvn)
    if not ctx.quick:
        printable = [chr(c) for c in range(0x20, 0x7f)] + ['\n', '\t', '\x00', '\x7f', '\xe9']
        for (cs, icvn) in SETTINGS:
            for a in printable:
                for b in printable:
                    yield ('AN', a + b, cs, icvn)


def dom_nonstring(ctx):
    for dt in ('N0', 'N2', 'R', 'AN', 'ID', 'DT', 'D8', 'D6', 'RD8', 'TM'):
        for v in (None, 5, 5.5, b'12', b'20000101', ['1'], ('1',), True, 20000101, 1200):
            for (cs, icvn) in SETTINGS[:2]:
                yield (dt, v, cs, icvn)


def dom_unicode_digits(ctx):
    """valid values of every digit-based type with one digit, or every digit, written in another Unicode digit alphabet (str.isdigit / int()
    accept several of them) or as a digit-like character that int() refuses: none belongs to the value language, none may raise"""
    alphabets = ['\uff10\uff11\uff12\uff13\uff14\uff15\uff16\uff17\uff18\uff19', '\u0660\u0661\u0662\u0663\u0664\u0665\u0666\u0667\u0668\u0669',
                 '\u0966\u0967\u0968\u0969\u096a\u096b\u096c\u096d\u096e\u096f']
    odd = ['\u00b2', '\u2460', '\u2167', '\u00bd', '\u2080']
    base = {'D8': ['20240229', '19991231'], 'DT': ['20240229', '202402291230', '240229'], 'D6': ['240229'], 'RD8': ['20240101-20240229'],
            'TM': ['1230', '123059', '12305999'], 'N0': ['123', '-5'], 'N2': ['1234'], 'R': ['1.5', '-0.25', '12']}
    for dt, vals in sorted(base.items()):
        for v in vals:
            pos = [i for i, c in enumerate(v) if c.isascii() and c.isdigit()]
            for alpha in alphabets:
                yield (dt, ''.join(alpha[int(c)] if (c.isascii() and c.isdigit()) else c for c in v), 'B', '00401')
                for i in (pos[0], pos[len(pos) // 2], pos[-1]):
                    yield (dt, v[:i] + alpha[int(v[i])] + v[i + 1:], 'E', '00501')
            for o in odd:
                for i in (pos[0], pos[-1]):
                    yield (dt, v[:i] + o + v[i + 1:], 'B', '00401')


DOMAINS = [dom_numeric, dom_dates, dom_rd8, dom_time, dom_chars, dom_nonstring, dom_unicode_digits]


def evaluate(ctx, fn, dt, v, cs, icvn, seen):
    exp, why = ref_values.valid(v, dt, cs, icvn)
    short = 'N' if dt[0] == 'N' else dt
    ctx.count('evals:' + short)
    ctx.count('ref-valid' if exp else 'ref-invalid')
    try:
        got = fn(v, dt, cs, icvn)
    except Exception as e:
        ctx.viol('recogniser:%s:raises-%s:%s' % (short, type(e).__name__, why or 'valid'),
                 'IsValidDataType raised %s for a %s value (reference: %s)' % (type(e).__name__, short, why or 'valid'),
                 case={'type': dt, 'value': v, 'charset': cs, 'icvn': icvn}, detail={'exc': repr(e), 'where': exc_key(e)})
        got = None
    else:
        if got is not True and got is not False:
            ctx.viol('recogniser:%s:non-bool' % short, 'IsValidDataType returned a non-boolean',
                     case={'type': dt, 'value': v, 'charset': cs, 'icvn': icvn}, detail={'got': repr(got)})
        elif got != exp:
            if got:
                key = 'recogniser:%s:accepts:%s' % (short, why)
                what = 'IsValidDataType accepts a %s value the value language excludes (%s)' % (short, why)
            else:
                key = 'recogniser:%s:rejects-valid' % short
                what = 'IsValidDataType rejects a %s value that belongs to the value language' % short
            ctx.viol(key, what, case={'type': dt, 'value': v, 'charset': cs, 'icvn': icvn}, detail={'got': got, 'expected': exp, 'reason': why})
    if not exp:
        seen.add((dt, repr(v), cs, icvn))


def run(ctx):
    import pyx12.validation
    fn = pyx12.validation.IsValidDataType
    seen = set()
    n = 0
    total = 0
    samples = []
    for di, dom in enumerate(DOMAINS):
        idx = 0
        for (dt, v, cs, icvn) in dom(ctx):
            idx += 1
            if not ctx.mine((dt, repr(v), cs, icvn)):
                continue
            evaluate(ctx, fn, dt, v, cs, icvn, seen)
            total += 1
            if len(samples) < 2 and idx % 977 == 3:
                samples.append({'type': dt, 'value': v, 'charset': cs, 'icvn': icvn, 'expected': ref_values.valid(v, dt, cs, icvn)[0]})
        ctx.case(n=total - n, sample=samples.pop() if samples else None)
        n = total
    # shards partition the domain by value (ctx.mine), so per-shard distinct sets are disjoint and their sizes add up
    ctx.count('distinct-ref-invalid', len(seen))
    ctx.case(n=0, nt_disjoint=len(seen))
    contract_phase(ctx)


def contract_phase(ctx):
    """The same oracle as a record-only icontract postcondition on the real IsValidDataType while whole documents are validated:
    the values, types, charsets and versions are the ones real validation passes in (including the qualifier-selected formats)."""
    from vlib import probes, pipeline, gen_doc, faults
    import pyx12.validation
    log = []
    patched, orig = probes.install_type_contract(log)
    left = probes.survivors(orig)
    ctx.count('contract:aliases-rebound', len(patched))
    if left:
        raise RuntimeError('binding audit: undecorated IsValidDataType still bound at %r' % left)
    entries = [e for e in gen_doc.index_entries() if e['file'] != '841.4010.XXXC.xml']
    ndocs = 3 if ctx.quick else 25
    for k in range(ndocs):
        rng = ctx.sub_rng('c13c', ctx.shard, k)
        e = entries[(ctx.shard * 7 + k) % len(entries)]
        cs = 'BE'[k % 2]
        try:
            doc = gen_doc.gen_document(e, rng.randrange(1 << 30), fill=0.6, opt_prob=0.6, maxrep=1, charset=cs, rich=True, n_st=1)
        except gen_doc.GenFailed:
            continue
        if len(doc.recs) > 400:
            continue
        for kind in ('bad_date', 'bad_time', 'bad_char', 'bad_code', 'too_long'):
            f = faults.inject(rng, doc, kind=kind, tries=3)
            if f is not None:
                doc = f.doc
        del log[:]
        pipeline.validate(doc.text(), charset=cs, ack=False)
        ctx.count('contract:documents')
        for (v, dt, c2, icvn, got, exp, why) in log:
            ctx.count('contract:evals')
            if got is not True and got is not False:
                ctx.viol('recogniser:contract:non-bool', 'IsValidDataType returned a non-boolean during document validation', {'type': dt, 'value': v, 'charset': c2, 'icvn': icvn}, {'got': repr(got)})
            elif got != exp:
                short = 'N' if dt[0] == 'N' else dt
                key = 'recogniser:%s:accepts:%s' % (short, why) if got else 'recogniser:%s:rejects-valid' % short
                ctx.viol(key, 'contract on IsValidDataType (document workload): result differs from the value language', {'type': dt, 'value': v, 'charset': c2, 'icvn': icvn},
                         {'got': got, 'expected': exp, 'reason': why, 'map': e['file']})


def replay(ctx, case):
    import pyx12.validation
    evaluate(ctx, pyx12.validation.IsValidDataType, case['type'], case['value'], case['charset'], case['icvn'], set())
