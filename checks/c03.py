"""C03 - every single injected fault is rejected and localised (fault enumeration)."""
import zlib

from vlib import faults, gen_doc, pipeline, ref_ack

PROPERTY = 'C03'
LEVEL = 'fault_enumeration'
RULE = ('Base documents: generated conformant documents of every selectable map with >=2 transaction sets (so that "other sets remain accepted" is observable). For each base the fault '
        'catalogue (vlib/faults: too long, too short, outside code list, wrong character class / control character, impossible date, impossible time, impossible date / range / date-time / time in a DTP03 whose format DTP02 announces, missing required element, value in a '
        'not-used element, one element too many, one component too many, broken syntax note, unknown segment, known segment out of place, missing required segment, segment beyond max_use, loop '
        'beyond repeat) is applied one fault at a time at sampled (quick) or all applicable (thorough) kinds per base, SE01 repaired for structural faults. Oracle: verdict False; the captured '
        'error tree holds an error of the expected level and standard code in the expected set, at the expected position in set and element/component position, with the expected echoed value; the '
        'acknowledgement itemises it under the right AK2; for faults that do not alter matching nothing else is in the tree and every other set is acknowledged A. '
        'non-trivial = distinct (map, node path, fault kind) triples decided.')
ASSUMPTIONS = ['a syntax fault may be reported at any element position the violated note names', 'unknown / out-of-place segments may be reported with segment code 1 or 2',
               'faults are only injected where they cannot change how the segment or its neighbours are matched (no qualifiers, HL/LX numbers, BHT02), except the structural kinds, which are constructed so that the successor still matches its own node first']
REQUIRED_COUNTERS = ['bases:with-interleaved-sibling-loops', 'bases:with-X,Y,X-sibling-loops', 'missing_segment:in-later-instance-after-sibling-loop', 'bad_code:member-of-another-external-set-seen-earlier', 'bad_code:code-list-on-non-ID-element', 'missing_required:whole-composite', 'missing_required:whole-composite:at-the-tail', 'bad_qualified_datetime:format:DT', 'bad_qualified_datetime:format:TM', 'bad_qualified_datetime:format:RD8', 'bad_qualified_datetime:well-formed-in-another-listed-format', 'syntax:L:short', 'syntax:L:gaps', 'syntax:P:short', 'syntax:P:gaps', 'syntax:C:gaps', 'syntax:R:short', 'too_short:numeric:characters-reach-the-minimum-digits-do-not', 'bad_code:situational-first-element-with-code-list', 'bad_code:with-another-set-excluded', 'bad_code:with-another-set-excluded:related-name', 'bad_char:outside-charset:B:00501', 'bad_char:outside-charset:B:00401', 'bad_char:outside-charset:E:00401', 'faults'] + ['kind:' + k for k in faults.ALL_KINDS] + ['localised', 'others-accepted-checked']
MIN_CASES = {'quick': 1200, 'thorough': 30000}
WATCHDOG_S = {'quick': 1200, 'thorough': 7200}


def judge(ctx, f, case, sigs):
    doc = f.doc
    text = doc.text()
    excl = None
    ext = getattr(f, 'external', None)
    if f.kind == 'bad_code' and ext and (getattr(f, 'force_exclusion', False) or zlib.crc32(repr((f.value, f.seg_pos)).encode()) % 2):
        # the option that switches off ONE external code set, naming another set than this element's (by preference one whose name contains
        # this one's or is contained in it): the fault is as much a fault as before
        others = sorted(x for x in gen_doc.CODES() if x != ext)
        related = [x for x in others if x in ext or ext in x]
        excl = related[0] if related else others[zlib.crc32(ext.encode()) % len(others)]
        ctx.count('bad_code:with-another-set-excluded' + (':related-name' if related else ''))
        case = dict(case, exclude_external_codes=excl)
    res = pipeline.validate(text, charset=doc.charset, exclude_external=excl)
    ctx.count('faults')
    ctx.count('kind:' + f.kind)
    if res.exc is not None:
        ctx.viol('fault:%s:%s' % (f.kind, res.exc_key), 'validating a document with one injected fault raised', case, {'exc': repr(res.exc)[:300], 'tb': res.exc_tb})
        return
    if res.verdict is not False:
        ctx.viol('fault:%s:accepted' % f.kind, 'a document with one injected fault was not rejected', case, {'verdict': res.verdict, 'errors': [e[:12] for e in (res.errors or [])][:4]})
        return
    errs = res.errors or []
    # which (isa, gs, st) ordinal is the faulty set?  documents have one interchange/group here
    sets = [(ii, gi, si) for ii, i in enumerate(res.shape) for gi, g in enumerate(i['groups']) for si, s in enumerate(g['sets'])]
    if f.set_index >= len(sets):
        ctx.viol('fault:%s:set-missing-from-tree' % f.kind, 'the faulty set is not in the error tree', case, {'sets': len(sets)})
        return
    tgt = sets[f.set_index]

    def matches(e):
        if (e[1], e[2], e[3]) != tgt or e[0] != f.level or e[9] not in f.codes:
            return False
        if e[4] != f.seg_id or not (f.seg_pos <= (e[5] if e[5] is not None else -1) <= (f.seg_pos_max or f.seg_pos)):
            return False
        if f.level == 'ele':
            if f.positions:
                if e[7] not in f.positions:
                    return False
            elif e[7] != f.ele_pos or (e[8] or None) != (f.sub_pos or None):
                return False
            if f.value is not None and e[10] != f.value:
                return False
        return True
    hits = [e for e in errs if matches(e)]
    if not hits:
        # classify what is off: code, segment position, element position, value
        same_set = [e for e in errs if (e[1], e[2], e[3]) == tgt and e[0] == f.level]
        why = 'nothing-at-that-level'
        for e in same_set:
            if e[9] in f.codes and e[4] == f.seg_id and e[5] == f.seg_pos:
                why = 'element-position' if f.level == 'ele' and (e[7] != f.ele_pos or (e[8] or None) != (f.sub_pos or None)) else 'value'
                break
            if e[9] in f.codes and e[4] == f.seg_id:
                why = 'segment-position'
            elif e[9] in f.codes and why == 'nothing-at-that-level':
                why = 'segment-id'
            elif why == 'nothing-at-that-level':
                why = 'code'
        if why == 'segment-position' and f.kind == 'missing_segment' and f.doc.recs[f.rec_index].node.id == 'SE' \
                and any(e[9] in f.codes and e[4] == f.seg_id and e[5] == f.seg_pos - 1 for e in same_set):
            why = 'segment-position:successor-is-SE'
        ctx.viol('fault:%s:not-localised:%s' % (f.kind, why), 'the injected fault is not reported with the expected code at the expected coordinates', case,
                 {'expected': {k: v for k, v in f.describe().items() if k in ('level', 'codes', 'set_index', 'seg_id', 'seg_pos', 'ele_pos', 'sub_pos', 'value', 'positions', 'note')},
                  'errors_in_set': [e[:12] for e in same_set][:8], 'all_errors': [e[:12] for e in errs][:8]})
        return
    ctx.count('localised')
    # ---- acknowledgement
    if doc.entry['fic'] != 'FA' and res.ack:
        a = ref_ack.Ack(res.ack)
        allsets = [s for g in a.groups for s in g['sets']]
        if len(allsets) == len(sets):
            aset = allsets[f.set_index]
            items = aset['items']
            ok = False
            if f.level == 'seg':
                okpos = [str(p) for p in range(f.seg_pos, (f.seg_pos_max or f.seg_pos) + 1)]
                ok = any(s in ('AK3', 'IK3') and e[0] == f.seg_id and e[1] in okpos and (e[3] if len(e) > 3 else None) in f.codes for s, e in items)
            else:
                cur = None
                for s, e in items:
                    if s in ('AK3', 'IK3'):
                        cur = e
                    elif s in ('AK4', 'IK4') and cur is not None and cur[:2] == [f.seg_id, str(f.seg_pos)]:
                        pos = e[0].split(':')
                        want_pos = [p for p in (f.positions or [f.ele_pos])]
                        if int(pos[0]) in want_pos and (f.positions or (len(pos) > 1 and pos[1] != '' and int(pos[1]) == f.sub_pos) or (not f.sub_pos and (len(pos) == 1 or pos[1] == ''))) \
                                and (e[2] if len(e) > 2 else None) in f.codes:
                            ok = True
            if not ok:
                ctx.viol('fault:%s:not-in-acknowledgement' % f.kind, 'the localised error is not itemised under its set in the acknowledgement', case, {'items': items[:10], 'expected': [f.seg_id, f.seg_pos, f.ele_pos, f.sub_pos, f.codes]})
            # other sets accepted
            if not f.alters_matching:
                ctx.count('others-accepted-checked')
                for k, s in enumerate(allsets):
                    code = (s['ak5'] or [''])[0]
                    if k == f.set_index and code == 'A':
                        ctx.viol('fault:%s:faulty-set-accepted' % f.kind, 'the set holding the fault is acknowledged as accepted', case, {'ak5': s['ak5']})
                    if k != f.set_index and code != 'A':
                        ctx.viol('fault:%s:other-set-rejected' % f.kind, 'another transaction set of the interchange is not accepted', case, {'set': k, 'ak5': s['ak5']})
    # ---- nothing else
    if not f.alters_matching:
        others = [e for e in errs if e not in hits[:1]]
        if others:
            kinds = sorted(set('%s/%s' % (e[0], e[9]) for e in others))
            ctx.viol('fault:%s:something-else-reported:%s' % (f.kind, ','.join(kinds)[:40]), 'besides the injected fault something else is reported', case,
                     {'expected_only': [e[:12] for e in hits[:1]], 'also': [e[:12] for e in others][:6]})
    sigs.add('%s|%s|%s' % (doc.mapfile, f.node_path or f.seg_id, f.kind))


def run(ctx):
    sigs = set()
    n = 0
    entries = [e for e in gen_doc.index_entries() if e['file'] != '841.4010.XXXC.xml']
    per_map = 7 if ctx.quick else 60
    extra = 10 if ctx.quick else 60        # further bases, X,Y,X pattern only, for the maps that have such a loop group (dropped otherwise)
    for e in entries:
        label = e['file'] + ('/tspc=%s' % e['tspc'] if e.get('tspc') else '')
        for k in range(per_map + extra):
            if not ctx.mine((label, k)):
                continue
            rng = ctx.sub_rng('c03', label, k)
            kw = dict(fill=[0.4, 0.7, 1.0][k % 3], opt_prob=[0.5, 0.8][k % 2], maxrep=[1, 2][k % 2], charset=['E', 'B'][k % 2], rich=False, n_isa=1, n_gs=1, n_st=2,
                      interleave=(k % 3 != 0),       # instances of same-position sibling loops in shuffled order (kept only if the base is accepted)
                      force_xyx=(k % 3 == 2))       # ... with an X, Y, X pattern wherever a repeatable loop with a required inner segment has same-position siblings
            only_xyx = k >= per_map
            if only_xyx:
                kw.update(interleave=True, force_xyx=True)
            if kw['force_xyx']:
                kw['fill'] = [0.5, 0.3][k % 2]      # the pattern adds instances; keep the base under the size limit
            seed = zlib.crc32(repr((ctx.seed, label, k)).encode())
            try:
                base = gen_doc.gen_document(e, seed, **kw)
            except gen_doc.GenFailed:
                ctx.count('genfailed')
                continue
            xyx = bool(base.meta.get('xyx_groups'))
            if only_xyx and not xyx:
                continue
            if len(base.recs) > 600:
                ctx.count('skipped-large')
                continue
            # the base must itself be accepted, otherwise "exactly one violation" is not true (C02 judges bases)
            r0 = pipeline.validate(base.text(), charset=base.charset)
            if r0.exc is not None or r0.verdict is not True:
                ctx.count('base-not-accepted' + (':interleaved' if base.meta.get('interleaved_groups') else ''))
                continue
            if base.meta.get('interleaved_groups'):
                ctx.count('bases:with-interleaved-sibling-loops')
            if xyx:
                ctx.count('bases:with-X,Y,X-sibling-loops')
            reps = 1 if ctx.quick else 3
            kinds = faults.ALL_KINDS if not only_xyx else ['missing_segment', 'max_use', 'loop_repeat', 'out_of_place', 'missing_required']
            for kind in kinds:
                for rep in range(reps + (4 if xyx and kind == 'missing_segment' else 0) + (2 if kind in ('bad_qualified_datetime', 'bad_char', 'syntax') else 0)):
                    f = faults.inject(rng, base, kind=kind, tries=6)
                    if f is None:
                        ctx.count('not-applicable:' + kind)
                        break
                    case = {'map': e['file'], 'entry': e, 'gen_seed': seed, 'params': kw, 'fault': f.describe(), 'text': f.doc.text() if len(f.doc.recs) < 120 else None}
                    if f.kind == 'too_short' and f.note:
                        ctx.count('too_short:' + f.note)
                    if f.note == 'situational-first-element-with-code-list':
                        ctx.count('bad_code:situational-first-element-with-code-list')
                    if f.note == 'code-list-on-non-ID-element':
                        ctx.count('bad_code:code-list-on-non-ID-element')
                    if f.note == 'member-of-another-external-set-seen-earlier':
                        ctx.count('bad_code:member-of-another-external-set-seen-earlier')
                    if f.note and f.note.startswith('outside-charset:'):
                        ctx.count('bad_char:' + f.note)
                    if f.kind == 'syntax' and f.note and ' shape:' in f.note:
                        ctx.count('syntax:' + f.note.split(' shape:')[1])
                    if f.note and f.note.startswith('format:'):
                        ctx.count('bad_qualified_datetime:' + ':'.join(f.note.split(':')[:2]))
                        if f.note.endswith(':well-formed-in-another-listed-format'):
                            ctx.count('bad_qualified_datetime:well-formed-in-another-listed-format')
                    if f.note and f.note.startswith('whole-composite'):
                        ctx.count('missing_required:' + f.note)
                    if f.note == 'later-instance-after-sibling':
                        ctx.count('missing_segment:in-later-instance-after-sibling-loop')
                    judge(ctx, f, case, sigs)
                    n += 1
                    ctx.sample({'map': e['file'], 'fault': {k2: v for k2, v in f.describe().items() if k2 in ('kind', 'level', 'codes', 'set_index', 'seg_id', 'seg_pos', 'ele_pos', 'sub_pos', 'value', 'node_path', 'note')},
                                'faulty_segment': gen_doc.render_seg(f.doc.recs[f.rec_index].node.id, f.doc.recs[f.rec_index].vals) if f.rec_index is not None and f.rec_index < len(f.doc.recs) else None})
    # directed bases for the rare kinds: maps whose elements carry a <regex>; documents are drawn until one holds such an element
    from vlib import refmap
    for e in entries:
        if not ctx.mine(('pattern', e['file'], e.get('tspc'))):
            continue
        root = gen_doc.load_map(e['file'])
        if not any(nd.kind == 'ele' and nd.regex for nd in refmap.walk(root)):
            continue
        done = 0
        for t in range(24):
            if done >= (2 if ctx.quick else 8):
                break
            seed = zlib.crc32(repr((ctx.seed, 'pattern', e['file'], t)).encode())
            kw = dict(fill=0.6, opt_prob=0.9, maxrep=1, charset='E', rich=False, n_isa=1, n_gs=1, n_st=2)
            try:
                base = gen_doc.gen_document(e, seed, **kw)
            except gen_doc.GenFailed:
                continue
            if len(base.recs) > 900:
                continue
            rng = ctx.sub_rng('c03p', e['file'], t)
            f = faults.inject(rng, base, kind='bad_pattern', tries=2)
            if f is None:
                continue
            r0 = pipeline.validate(base.text(), charset=base.charset)
            if r0.exc is not None or r0.verdict is not True:
                ctx.count('base-not-accepted')
                continue
            done += 1
            judge(ctx, f, {'map': e['file'], 'entry': e, 'gen_seed': seed, 'params': kw, 'fault': f.describe(), 'text': None}, sigs)
            n += 1
    # directed bases for the rare syntax-note shapes: 'if the first is present, one of the others must be' where the first is the last element carried
    for e in entries:
        if not ctx.mine(('syntax-shape', e['file'], e.get('tspc'))):
            continue
        root = gen_doc.load_map(e['file'])
        if not any(nd.kind == 'seg' and any(nt[0] == 'L' for nt in nd.syntax) for nd in refmap.walk(root)):
            continue
        done = 0
        for t in range(16):
            if done >= (2 if ctx.quick else 8):
                break
            seed = zlib.crc32(repr((ctx.seed, 'syntax-shape', e['file'], t)).encode())
            kw = dict(fill=0.7, opt_prob=0.9, maxrep=1, charset='E', rich=False, n_isa=1, n_gs=1, n_st=1)
            try:
                base = gen_doc.gen_document(e, seed, **kw)
            except gen_doc.GenFailed:
                continue
            if len(base.recs) > 900:
                continue
            rng = ctx.sub_rng('c03s', e['file'], t)
            f = faults._K.syntax(rng, base, want=['L:short', 'L:gaps'][t % 2])
            if f is None:
                continue
            r0 = pipeline.validate(base.text(), charset=base.charset)
            if r0.exc is not None or r0.verdict is not True:
                ctx.count('base-not-accepted')
                continue
            done += 1
            ctx.count('syntax:' + f.note.split(' shape:')[1])
            judge(ctx, f, {'map': e['file'], 'entry': e, 'gen_seed': seed, 'params': kw, 'fault': f.describe(), 'text': f.doc.text() if len(f.doc.recs) < 120 else None}, sigs)
            n += 1
    # directed: numeric elements whose minimum length is above 1 (rare: the exchange rate CUR03 of the 4010 835 / 820) given too few digits, with and
    # without a sign or decimal point that brings the character count up to the minimum
    for e in entries:
        if not ctx.mine(('numeric-min', e['file'], e.get('tspc'))):
            continue
        root = gen_doc.load_map(e['file'])
        if not any(nd.kind == 'ele' and nd.usage != 'N' and nd.parent.kind == 'seg' and nd.parent.id not in faults.ENVELOPE and nd.data_ele in gen_doc.DE() and gen_doc.dtype_of(nd)[1] > 1
                   and (gen_doc.dtype_of(nd)[0] == 'R' or gen_doc.dtype_of(nd)[0][0] == 'N') and not nd.codes for nd in refmap.walk(root)):
            continue
        done = 0
        for t in range(20):
            if done >= (3 if ctx.quick else 10):
                break
            seed = zlib.crc32(repr((ctx.seed, 'numeric-min', e['file'], t)).encode())
            kw = dict(fill=0.8, opt_prob=1.0, maxrep=1, charset='E', rich=False, n_isa=1, n_gs=1, n_st=1)
            try:
                base = gen_doc.gen_document(e, seed, **kw)
            except gen_doc.GenFailed:
                continue
            if len(base.recs) > 900:
                continue
            rng = ctx.sub_rng('c03n', e['file'], t)
            f = faults.inject(rng, base, kind='too_short', tries=8)
            if f is None or not f.note:
                continue
            r0 = pipeline.validate(base.text(), charset=base.charset)
            if r0.exc is not None or r0.verdict is not True:
                ctx.count('base-not-accepted')
                continue
            done += 1
            ctx.count('too_short:' + f.note)
            judge(ctx, f, {'map': e['file'], 'entry': e, 'gen_seed': seed, 'params': kw, 'fault': f.describe(), 'text': f.doc.text() if len(f.doc.recs) < 120 else None}, sigs)
            n += 1
    # directed: an element bound to an external code set whose name is contained in (or contains) another set's name, outside its list, while the
    # option excludes that other set alone
    CODES = gen_doc.CODES()
    rel_sets = sorted(x for x in CODES if any(y != x and (x in y or y in x) for y in CODES))
    for e in entries:
        if not ctx.mine(('related-set', e['file'], e.get('tspc'))):
            continue
        root = gen_doc.load_map(e['file'])
        if not any(nd.kind == 'ele' and nd.external in rel_sets and nd.usage != 'N' for nd in refmap.walk(root)):
            continue
        done = 0
        for t in range(16):
            if done >= (2 if ctx.quick else 6):
                break
            seed = zlib.crc32(repr((ctx.seed, 'related-set', e['file'], t)).encode())
            kw = dict(fill=0.8, opt_prob=0.9, maxrep=1, charset='E', rich=False, n_isa=1, n_gs=1, n_st=1)
            try:
                base = gen_doc.gen_document(e, seed, **kw)
            except gen_doc.GenFailed:
                continue
            if len(base.recs) > 900:
                continue
            sites = [x for x in faults.element_sites(base, None) if x[1].external in rel_sets and x[1].usage != 'N' and faults._present(x[4]) and faults._plain_site(x[0], x[1], x[2], x[3], x[4], base)]
            if not sites:
                continue
            rng = ctx.sub_rng('c03r', e['file'], t)
            i, node, ep, sp, cur = rng.choice(sites)
            dt, mn, mx = gen_doc.dtype_of(node)
            own = set(node.codes) | set(CODES.get(node.external, []))
            vals = [c for c in ('ZQ', 'Z', 'ZQZ', 'ZQZQ', 'ZQZQZ', 'ZQZQZQZQ') if mn <= len(c) <= mx and c not in own]
            if not vals:
                continue
            r0 = pipeline.validate(base.text(), charset=base.charset)
            if r0.exc is not None or r0.verdict is not True:
                ctx.count('base-not-accepted')
                continue
            d = faults.clone(base)
            faults.set_value(d.recs[i], ep, sp, vals[0])
            f = faults._mk(d, 'bad_code', i, ep, sp, ['7'], vals[0], external=node.external, force_exclusion=True)
            if f is None:
                continue
            done += 1
            judge(ctx, f, {'map': e['file'], 'entry': e, 'gen_seed': seed, 'params': kw, 'fault': f.describe(), 'text': f.doc.text() if len(f.doc.recs) < 120 else None}, sigs)
            n += 1
    ctx.case(n=n, sigs=sorted(sigs))


def replay(ctx, case):
    text = case.get('text')
    print('fault:', case['fault'])
    if text is None:
        raise RuntimeError('document not stored (long); regenerate from entry/gen_seed/params and re-inject')
    res = pipeline.validate(text, charset=case['params']['charset'], exclude_external=case.get('exclude_external_codes'))
    print('verdict', res.verdict)
    for e in res.errors or []:
        print('  ', e[:12])
    ctx.viol('replayed', 'see stdout for the tree of the stored faulty document', case, {})
