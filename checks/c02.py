"""C02 - every map-conformant document is accepted with zero errors."""
import zlib

from vlib import gen_doc, pipeline, ref_ack, refmap
from vlib.worker import exc_key

PROPERTY = 'C02'
LEVEL = 'exploration'
RULE = ('For every map the index can select under ISA versions 00401/00501 (both 278 variants through BHT02), documents are generated from an independent '
        'reading of the map XML (vlib/gen_doc: required nodes present, situational ones by a fill probability swept sparse->dense, repeats within limits, values '
        'from per-definition pools, HL/LX numbered, 1-2 sets, 1-2 groups, 1-2 interchanges, charset B and E, plain and rich value pools) and kept only inside the '
        'unambiguous sub-language (first candidate under ordered matching == intended node). Each is validated by the real x12n_document; oracle: verdict True and '
        'no error at any level of the captured error tree and no ERROR log record and every AK5/IK5 and AK9 accepted. '
        'non-trivial = distinct document hashes with >=1 situational node present and >=10 segments.')
ASSUMPTIONS = ['only the unambiguous sub-language of each map is judged; shadowed nodes are counted, not judged',
               'the 830 map is indexed under ISA version 00400 which the reader refuses by design; it is covered by C14/C15/C16 only',
               'ISA11 (repetition separator) and ISA16 are characters of the declared character set',
               'loops that share one map position are an unordered group (the position is the order the map declares, not the listing order of the XML): a fifth of the documents '
               'emit their instances interleaved, the first instance of every required sibling first']
REQUIRED_COUNTERS = ['docs:with-TA1:after-isa', 'docs:with-TA1:before-iea', 'docs:with-TA1:several-interchanges', 'docs', 'accepted', 'segments', 'reach:walk', 'reach:_check_loop_usage', 'reach:_flush_mandatory_segs', 'reach:element_if.is_valid',
                     'reach:composite_if.is_valid', 'maps-with-accepted-docs', 'acks-parsed', 'docs:sibling-loops-interleaved', 'docs:sibling-loops-X,Y,X', 'docs:alternating-transaction-types']
MIN_CASES = {'quick': 250, 'thorough': 8000}
WATCHDOG_S = {'quick': 1200, 'thorough': 7200}

_reach = {}


def install_reach(ctx):
    import pyx12.map_walker as MW
    import pyx12.map_if as MI

    def wrap(cls, name, label):
        orig = getattr(cls, name)
        is_static = isinstance(cls.__dict__.get(name), staticmethod)

        def w(*a, **k):
            ctx.counters['reach:' + label] = ctx.counters.get('reach:' + label, 0) + 1
            return orig(*a, **k)
        setattr(cls, name, staticmethod(w) if is_static else w)
    if _reach.get('done'):
        return
    for name in ('walk', '_check_loop_usage', '_flush_mandatory_segs', '_check_seg_usage', '_goto_seg_match'):
        wrap(MW.walk_tree, name, name)
    wrap(MI.element_if, 'is_valid', 'element_if.is_valid')
    wrap(MI.composite_if, 'is_valid', 'composite_if.is_valid')
    wrap(MI.segment_if, 'is_valid', 'segment_if.is_valid')
    _reach['done'] = True


def params_for(k, quick):
    """deterministic sweep of the generator parameters by document index"""
    fills = [0.15, 0.5, 0.85, 1.0, 0.3, 0.7]
    # every map gets multi-group (k=0, 6, 13, ...) and multi-interchange (k=1, 10, 21, ...) documents even in the quick tier:
    # map selection and counters must survive a second GS / ISA
    return dict(fill=fills[k % len(fills)], opt_prob=[0.3, 0.6, 0.9, 1.0][(k // 2) % 4], maxrep=[1, 2, 3][(k // 3) % 3],
                charset='E' if k % 2 else 'B', rich=(k % 3 != 0), n_isa=2 if (k % 11 == 10 or k == 1) else 1, n_gs=2 if (k % 7 == 6 or k == 0) else (3 if k == 2 else 1),
                n_st=[1, 2, None][k % 3])


def judge(ctx, doc, case):
    text = doc.text()
    res = pipeline.validate(text, charset=doc.charset)
    ctx.count('docs')
    ctx.count('segments', len(doc.recs))
    mapfile = doc.mapfile
    if res.exc is not None:
        ctx.viol('conformant:%s' % res.exc_key, 'validating a map-conformant document raised %s' % type(res.exc).__name__, case,
                 {'exc': repr(res.exc)[:300], 'tb': res.exc_tb, 'text': text[:3000]})
        return False
    ok = True
    if res.errors:
        seen = set()
        for er in res.errors:
            key = 'rejected:%s:%s:%s:%s' % (mapfile, er[0], er[4], er[9])
            if key in seen:
                continue
            seen.add(key)
            ctx.viol(key, 'a map-conformant document drew a %s-level error code %s on %s' % (er[0], er[9], er[4]), case,
                     {'error': er[:12], 'message': er[13], 'text': text[:6000]})
        ok = False
    if res.verdict is not True and not res.errors:
        ctx.viol('verdict-false-without-error:%s' % mapfile, 'verdict is not True although no error was reported', case, {'verdict': res.verdict, 'logs': res.error_logs()[:5], 'text': text[:6000]})
        ok = False
    if res.verdict is True and res.errors:
        ctx.viol('verdict-true-with-errors', 'verdict True although errors are in the tree', case, {'errors': [e[:12] for e in res.errors[:5]]})
    if ok and res.error_logs():
        ctx.viol('error-logged-on-conformant:%s' % mapfile, 'an ERROR record was logged for a document with an empty error tree', case, {'logs': res.error_logs()[:5], 'text': text[:6000]})
        ok = False
    if ok:
        a = ref_ack.Ack(res.ack)
        ctx.count('acks-parsed')
        nst = sum(1 for r in doc.recs if r.node.id == 'ST')
        ngs = sum(1 for r in doc.recs if r.node.id == 'GS')
        if doc.entry['fic'] == 'FA':
            ctx.count('ack-not-generated-for-FA')
        elif not a.complete() or not a.all_accepted() or len(a.groups) != ngs or sum(len(g['sets']) for g in a.groups) != nst:
            ctx.viol('ack-does-not-accept:%s' % ('incomplete' if not a.complete() else 'codes'), 'the acknowledgement of an accepted conformant document does not accept every set and group', case,
                     {'ack': res.ack[:1500], 'text': text[:3000]})
            ok = False
    if ok:
        ctx.count('accepted')
        ctx.add('maps_with_accepted_docs', mapfile + ('/tspc=%s' % doc.entry['tspc'] if doc.entry.get('tspc') else ''))
    return ok


def envelope_only(entry):
    """smallest possible document for an index entry: used where the generator cannot produce one (841)"""
    from vlib import ref_envelope as RE
    segs = [('ISA', RE.isa_elements('000000007', entry['icvn'])), ('GS', [entry['fic'], 'S', 'R', '20240102', '1230', '7', 'X', entry['vriic']]),
            ('ST', [entry['file'].split('.')[0], '0001']), ('SE', ['2', '0001']), ('GE', ['1', '7']), ('IEA', ['1', '000000007'])]
    return RE.render(segs, eol='\n')


def run(ctx):
    install_reach(ctx)
    entries = gen_doc.index_entries()
    per_map = 14 if ctx.quick else 420
    extra = 6 if ctx.quick else 80
    sigs = set()
    n = 0
    for e in entries:
        label = e['file'] + ('/tspc=%s' % e['tspc'] if e.get('tspc') else '')
        for k in range(per_map + extra):
            if not ctx.mine((label, k)):
                continue
            kw = params_for(k, ctx.quick)
            if k % 5 == 4 or k >= per_map:
                # same-position sibling loops (837 2330A-G, 2420A-G, 835 1000A/B ...) are an unordered group: their instances interleaved,
                # every other document with an X, Y, X pattern; the extra documents are kept only for maps that have such a group
                kw.update(interleave=True, force_xyx=(k % 2 == 0 or k >= per_map))
                if k >= per_map:
                    kw.update(fill=[0.3, 0.5, 0.7][k % 3], n_isa=1, n_gs=1)
            seed = zlib.crc32(repr((ctx.seed, label, k)).encode())
            case = {'map': e['file'], 'entry': e, 'k': k, 'gen_seed': seed, 'params': kw}
            try:
                doc = gen_doc.gen_document(e, seed, **kw)
            except gen_doc.GenFailed as ex:
                ctx.count('genfailed:' + label)
                if k == 0:
                    # still exercise map selection for this index entry
                    res = pipeline.validate(envelope_only(e))
                    if res.exc is not None:
                        ctx.viol('conformant:%s:%s' % (e['file'], res.exc_key), 'the map selected for an index entry cannot be used at all: validation raises', dict(case, envelope_only=True),
                                 {'exc': repr(res.exc)[:300]})
                continue
            if k >= per_map and not doc.meta.get('xyx_groups'):
                continue
            if doc.meta.get('interleaved_groups'):
                ctx.count('docs:sibling-loops-interleaved')
            if doc.meta.get('xyx_groups'):
                ctx.count('docs:sibling-loops-X,Y,X')
            if k % 4 == 1:
                # the envelope map has one more node: the interchange acknowledgement, at the position of the groups - in its usual place
                # after the ISA, or after the last group
                where = ['after-isa', 'before-iea', 'after-isa', 'between-groups'][(k // 4) % 4] if k != 1 else 'after-isa'
                doc = gen_doc.add_ta1(doc, where)
                case = dict(case, ta1=where)
                ctx.count('docs:with-TA1:' + where)
                if sum(1 for r in doc.recs if r.node.id == 'ISA') > 1:
                    ctx.count('docs:with-TA1:several-interchanges')
            n += 1
            for path, cnt in doc.shadowed.items():
                ctx.add('shadowed_nodes', e['file'] + '|' + path)
            for r in doc.recs:
                ctx.add('segnodes_emitted', e['file'] + '|' + r.node.path())
            ok = judge(ctx, doc, case)
            nsit = sum(1 for r in doc.recs if r.node.usage == 'S' or any(l.usage == 'S' for (l, i) in r.chain))
            if len(doc.recs) >= 10 and nsit >= 1:
                sigs.add('%08x' % zlib.crc32(doc.text().encode('utf-8', 'replace')))
            ctx.sample({'map': label, 'params': kw, 'segments': len(doc.recs), 'text_head': doc.text()[:1200]})
    # files that alternate between transaction types (X, Y, X as three interchanges): whatever the validator keeps per map or per reader
    # (selected map, 837 service-line counter switch, code tables) must follow the switch there and back
    plain = [x for x in entries if x['fic'] != 'FA' and x['file'] != '841.4010.XXXC.xml']
    for k, e in enumerate(plain):
        for rep in range(1 if ctx.quick else 6):
            if not ctx.mine(('xyx', e['file'], e.get('tspc'), rep)):
                continue
            same = [x for x in plain if x['icvn'] == e['icvn'] and x['file'] != e['file']]
            # an 837 in the middle half of the time (its LX / service-line bookkeeping is the stickiest state)
            mids = [x for x in same if x['file'].startswith('837')] if (k + rep) % 2 == 0 else same
            if not mids:
                continue
            o = mids[(k * 5 + rep + ctx.seed) % len(mids)]
            try:
                parts = [gen_doc.gen_document(e, zlib.crc32(repr((ctx.seed, 'xyx', k, rep, 0)).encode()), fill=0.5, opt_prob=0.7, maxrep=2, charset='E', n_st=1),
                         gen_doc.gen_document(o, zlib.crc32(repr((ctx.seed, 'xyx', k, rep, 1)).encode()), fill=0.5, opt_prob=0.7, maxrep=2, charset='E', n_st=1),
                         gen_doc.gen_document(e, zlib.crc32(repr((ctx.seed, 'xyx', k, rep, 2)).encode()), fill=0.5, opt_prob=0.7, maxrep=2, charset='E', n_st=1)]
            except gen_doc.GenFailed:
                continue
            if sum(len(x.recs) for x in parts) > 1500:
                continue
            doc = gen_doc.concat_docs(parts)
            n += 1
            ctx.count('docs:alternating-transaction-types')
            judge(ctx, doc, {'alternating': [e['file'], o['file'], e['file']], 'k': [k, rep], 'text': doc.text()[:6000]})
    # pinned witnesses for the listed findings: deterministic seeds, independent of VERIF_SEED
    if ctx.shard == 0:
        for e in entries:
            if not e['file'].startswith('999.'):
                continue
            for sd in range(60):
                try:
                    doc = gen_doc.gen_document(e, 777000 + sd, fill=1.0, opt_prob=1.0, maxrep=2, n_st=1, charset='E')
                except gen_doc.GenFailed:
                    continue
                nctx = {}
                for r in doc.recs:
                    if r.node.id == 'CTX' and r.node.pos == 500:
                        k = r.chain[-1][1]
                        nctx.setdefault(k, set()).add(id(r.node))
                if not any(len(v) == 2 for v in nctx.values()):
                    continue
                n += 1
                ctx.count('pinned-999-ctx-docs')
                judge(ctx, doc, {'map': e['file'], 'entry': e, 'k': 'pinned', 'gen_seed': 777000 + sd,
                                 'params': dict(fill=1.0, opt_prob=1.0, maxrep=2, n_st=1, charset='E')})
                break
    ctx.counters['maps-with-accepted-docs'] = len(ctx.sets.get('maps_with_accepted_docs', ()))
    ctx.case(n=n, sigs=sorted(sigs))


def coverage_extra(counters, sets, tier):
    reach = {}
    for e in gen_doc.index_entries():
        root = gen_doc.load_map(e['file'])
        reach[e['file']] = sum(1 for s in refmap.segments(root) if s.usage != 'N')
    emitted = {}
    for x in sets.get('segnodes_emitted', ()):
        f, p = x.split('|', 1)
        emitted[f] = emitted.get(f, 0) + 1
    return {'segment_node_coverage': {f: '%d/%d' % (emitted.get(f, 0), reach[f]) for f in sorted(reach)}}


def replay(ctx, case):
    install_reach(ctx)
    if case.get('envelope_only'):
        res = pipeline.validate(envelope_only(case['entry']))
        if res.exc is not None:
            ctx.viol('conformant:%s:%s' % (case['entry']['file'], res.exc_key), 'validation raises', case, {'exc': repr(res.exc)})
        return
    doc = gen_doc.gen_document(case['entry'], case['gen_seed'], **case['params'])
    if case.get('ta1'):
        doc = gen_doc.add_ta1(doc, case['ta1'])
    judge(ctx, doc, case)
