"""C07 - validation is total: any input yields a verdict or a documented refusal."""
import io
import zlib

from vlib import corpus, mutate, pipeline, reencode, steps
from vlib.worker import exc_key

PROPERTY = 'C07'
LEVEL = 'exploration'
RULE = ('Inputs: the suite\'s fixture documents and small generated documents of every selectable map, each under 1-4 stacked structural mutations '
        '(delete/duplicate/swap/move/retag, orphan trailers, dropped trailers/headers, non-numeric/empty/missing counts and control numbers, HL/LX renumbering, '
        'element surgery incl. >8 KiB and >16 KiB segments, extra elements/components, acknowledgement delimiters and markup canaries in data, truncation at any '
        'character, empty and blank segments), some re-encoded with other delimiters, plus envelope soups (a well-formed ISA followed by 3-16 header, trailer and body segments in arbitrary order, ids and counts from small pools) and arbitrary strings (empty, short, ISA-only, bad version, printable noise, '
        'X12-shaped noise). Each input runs through x12n_document under a subset of {997, HTML, XML} sinks x charset {B,E} (all 16 combinations covered), a quarter of the runs with one of the other configuration parameters set (simple_dtd, exclude_external_codes, explicit map_path), through '
        'plain X12Reader iteration + cleanup(), and through X12ContextReader.iter_segments for loop id None and two map loop ids. Allowed outcomes: a bool; X12Error; '
        'EngineError "Map not found". Anything else that escapes, or exceeding the logical step budget, is a violation keyed <Exception>@<innermost pyx12 function>. '
        'non-trivial = distinct mutated inputs that still begin with a well-formed ISA.')
ASSUMPTIONS = ['path-based sources are not used here (C01/C20 cover them); sinks are StringIO',
               'the step budget is 2e6 + 2000*len(text) Python function entries per run (deterministic); the wall-clock watchdog only yields inconclusive']
REQUIRED_COUNTERS = ['runs:x12n_document', 'runs:reader', 'runs:context', 'outcome:bool', 'outcome:refused', 'inputs:mutated', 'inputs:hostile-numeral-in-count', 'inputs:composite-cut-short', 'inputs:c0-control-character-in-a-value', 'inputs:later-interchange-of-unknown-version', 'inputs:fuzz', 'inputs:envelope-soup', 'inputs:catalogue-faults', 'inputs:catalogue-faults:qualified-datetime', 'inputs:directed-pattern-fault', 'config:simple_dtd', 'config:exclude_external_codes', 'config:map_path', 'sinks:ack+html+xml', 'sinks:none']
MIN_CASES = {'quick': 1200, 'thorough': 40000}
WATCHDOG_S = {'quick': 1200, 'thorough': 7200}

BUDGET = steps.Budget()


def allowed(exc):
    import pyx12.errors as E
    if isinstance(exc, E.X12Error):
        return 'refused:X12Error'
    if isinstance(exc, E.EngineError) and str(exc).startswith('Map not found'):
        return 'refused:map-not-found'
    return None


def run_doc(ctx, text, sinks, charset, case):
    ack, html, xml = sinks
    ctx.count('runs:x12n_document')
    ctx.count('sinks:' + ('+'.join(n for n, f in zip(('ack', 'html', 'xml'), sinks) if f) or 'none'))
    BUDGET.start(2000000 + 2000 * len(text))
    try:
        # the other configuration parameters, by a hash of the input: DTD for the XML form, an excluded external code set, explicit map directory
        h = zlib.crc32(text[:2000].encode('utf-8', 'replace')) % 7
        prm = None
        mp = None
        if h in (1, 2):
            import pyx12.params
            prm = pyx12.params.params()
            prm.set('charset', charset)
            if h == 1:
                prm.set('simple_dtd', 'x12simple.dtd')
                ctx.count('config:simple_dtd')
            else:
                prm.set('exclude_external_codes', 'states,entity_id')
                ctx.count('config:exclude_external_codes')
        elif h == 3:
            from vlib import refmap
            mp = refmap.MAPDIR
            ctx.count('config:map_path')
        res = pipeline.validate(text, charset=charset, ack=ack, html=html, xml=xml, params=prm, map_path=mp)
    except steps.StepBudgetExceeded as ex:
        BUDGET.stop()
        ctx.viol('nonterminating:x12n_document', 'validation exceeded the logical step budget', case, {'budget': str(ex)})
        return
    finally:
        BUDGET.stop()
    if res.exc is not None:
        a = allowed(res.exc)
        if a:
            ctx.count('outcome:refused')
            ctx.count('outcome:' + a)
        else:
            sk = 'xml' if xml and ('x12xml' in (res.exc_tb or '') or 'xmlwriter' in (res.exc_tb or '')) else ('html' if html and 'error_html' in (res.exc_tb or '') else '')
            ctx.viol('x12n_document:%s' % res.exc_key, 'x12n_document let %s escape' % type(res.exc).__name__, case,
                     {'exc': repr(res.exc)[:300], 'tb': res.exc_tb, 'sinks': sinks, 'charset': charset})
    elif res.verdict is True or res.verdict is False:
        ctx.count('outcome:bool')
        if res.verdict is False and not text.startswith('ISA'):
            ctx.count('outcome:refused')
    else:
        ctx.viol('x12n_document:non-bool', 'x12n_document returned neither True nor False', case, {'got': repr(res.verdict)})


def run_reader(ctx, text, case):
    import pyx12.x12file
    ctx.count('runs:reader')
    BUDGET.start(2000000 + 2000 * len(text))
    try:
        r = pyx12.x12file.X12Reader(io.StringIO(text))
        for seg in r:
            r.pop_errors()
        r.cleanup()
        r.pop_errors()
    except steps.StepBudgetExceeded as ex:
        ctx.viol('nonterminating:reader', 'reading exceeded the logical step budget', case, {'budget': str(ex)})
    except Exception as ex:
        if not allowed(ex):
            ctx.viol('reader:%s' % exc_key(ex), 'plain reading let %s escape' % type(ex).__name__, case, {'exc': repr(ex)[:300]})
    finally:
        BUDGET.stop()


def run_context(ctx, text, loop_id, case):
    import pyx12.x12context
    import pyx12.params
    import pyx12.error_handler
    ctx.count('runs:context')
    BUDGET.start(2000000 + 2000 * len(text))
    try:
        p = pyx12.params.params()
        rd = pyx12.x12context.X12ContextReader(p, pyx12.error_handler.errh_null(), io.StringIO(text))
        n = 0
        for node in rd.iter_segments(loop_id):
            for s in node.iterate_segments():
                n += 1
    except steps.StepBudgetExceeded as ex:
        ctx.viol('nonterminating:context', 'context iteration exceeded the logical step budget', case, {'budget': str(ex)})
    except Exception as ex:
        if not allowed(ex):
            ctx.viol('context:%s' % exc_key(ex), 'X12ContextReader.iter_segments(%r) let %s escape' % (loop_id, type(ex).__name__), dict(case, loop_id=loop_id), {'exc': repr(ex)[:300]})
    finally:
        BUDGET.stop()


ALL_SINKS = [(a, h, x) for a in (0, 1) for h in (0, 1) for x in (0, 1)]


def one_input(ctx, text, k, case, sigs):
    combos = [(ALL_SINKS[(k + j * 3) % 8], 'BE'[(k // 8 + j) % 2]) for j in range(2 if ctx.quick else 4)]
    if k % 5 == 0:
        combos.append(((1, 1, 1), 'E'))
    for sinks, cs in combos:
        run_doc(ctx, text, sinks, cs, dict(case, sinks=list(sinks), charset=cs))
    run_reader(ctx, text, case)
    for loop_id in ([None, '2300', '2000A'] if k % 2 == 0 else [None, 'ST_LOOP', '2000']):
        run_context(ctx, text, loop_id, case)
    if text[:3] == 'ISA' and len(text) >= 106 and text[84:89] in ('00401', '00501'):
        sigs.add('%08x' % zlib.crc32(text.encode('utf-8', 'replace')))


DIRECTED = [
    ('GE01-non-numeric', 'simple1', lambda t: t.replace('GE*1*', 'GE*X*')),
    ('GE01-absent', 'simple1', lambda t: t.replace('GE*1*17~', 'GE~') if 'GE*1*17~' in t else t.replace('GE*1*', 'GE**')),
    ('no-GS-at-all', None, lambda t: 'ISA*00*          *00*          *ZZ*SENDER         *ZZ*RECEIVER       *040608*1333*U*00401*000000001*0*P*:~ST*837*0001~SE*2*0001~IEA*0*000000001~'),
    ('orphan-SE-before-any-ST', None, lambda t: 'ISA*00*          *00*          *ZZ*SENDER         *ZZ*RECEIVER       *040608*1333*U*00401*000000001*0*P*:~GS*HC*A*B*20040608*1333*1*X*004010X098A1~SE*1*0001~GE*0*1~IEA*1*000000001~'),
    ('body-before-ST', None, lambda t: 'ISA*00*          *00*          *ZZ*SENDER         *ZZ*RECEIVER       *040608*1333*U*00401*000000001*0*P*:~GS*HC*A*B*20040608*1333*1*X*004010X098A1~NM1*85*2*X~GE*0*1~IEA*1*000000001~'),
    ('unknown-version-in-GS', None, lambda t: 'ISA*00*          *00*          *ZZ*SENDER         *ZZ*RECEIVER       *040608*1333*U*00401*000000001*0*P*:~GS*HC*A*B*20040608*1333*1*X*009999X999~ST*837*0001~SE*2*0001~GE*1*1~IEA*1*000000001~'),
]


def run(ctx):
    fx = corpus.fixtures()
    names = sorted(fx)
    sigs = set()
    n = 0
    if ctx.shard == 0:
        for name, base, fn in DIRECTED:
            text = fn(fx[base] if base else '')
            for sinks in ((1, 1, 1), (1, 0, 0), (0, 1, 0), (0, 0, 1), (0, 0, 0)):
                run_doc(ctx, text, sinks, 'E', {'directed': name, 'text': text[:3000], 'sinks': list(sinks)})
            run_reader(ctx, text, {'directed': name, 'text': text[:3000]})
            run_context(ctx, text, None, {'directed': name, 'text': text[:3000]})
            run_context(ctx, text, '2300', {'directed': name, 'text': text[:3000]})
            n += 1
    if ctx.shard == 1 % ctx.nshards:
        # directed: the rare element kinds (a <regex> on the element) get a refused value in an otherwise conformant document
        from vlib import faults, gen_doc, refmap
        for e in gen_doc.index_entries():
            if e['file'] == '841.4010.XXXC.xml' or not any(nd.kind == 'ele' and nd.regex for nd in refmap.walk(gen_doc.load_map(e['file']))):
                continue
            done = 0
            for t in range(24):
                if done >= 3:
                    break
                try:
                    base = gen_doc.gen_document(e, zlib.crc32(repr((ctx.seed, 'c07pattern', e['file'], t)).encode()), fill=0.6, opt_prob=0.9, maxrep=1, charset='E', n_st=1)
                except gen_doc.GenFailed:
                    continue
                f = faults.inject(ctx.sub_rng('c07p', e['file'], t), base, kind='bad_pattern', tries=2)
                if f is None or len(f.doc.recs) > 900:
                    continue
                done += 1
                text = f.doc.text()
                ctx.count('inputs:directed-pattern-fault')
                for sinks in ((1, 1, 1), (0, 0, 0), (0, 0, 1)):
                    run_doc(ctx, text, sinks, 'E', {'directed': 'bad_pattern', 'map': e['file'], 'value': f.value, 'text': text[:3000], 'sinks': list(sinks)})
                n += 1
    gens = corpus.generated(ctx.seed * 131 + ctx.shard, 6 if ctx.quick else 40)
    bases = [('fixture:' + nm, fx[nm]) for nm in names] + [('gen:%s:%s' % (d.mapfile, d.meta['seed']), d.text()) for d in gens]
    per = (1500 if ctx.quick else 60000) // ctx.nshards
    for k in range(per):
        rng = ctx.sub_rng('c07', ctx.shard, k)
        r = rng.random()
        if 0.76 <= r < 0.88 and gens:
            # value-level: 1-5 faults of the single-fault catalogue stacked on a generated document (every typed recogniser, code list, syntax note and
            # the qualifier-dependent DTP03 formats get wrong values in well-formed surroundings)
            from vlib import faults
            doc = gens[rng.randrange(len(gens))]
            kinds = []
            for _ in range(rng.randint(1, 5)):
                f = faults.inject(rng, doc, kind=rng.choice(faults.ELE_KINDS + ['bad_qualified_datetime', 'bad_qualified_datetime', None]), tries=8)
                if f is not None:
                    doc = f.doc
                    kinds.append(f.kind + (':' + str(f.value)[:20] if f.kind == 'bad_qualified_datetime' else ''))
            text = doc.text()
            case = {'base': 'gen:%s' % doc.mapfile, 'catalogue_faults': kinds, 'gen': ['c07', ctx.shard, k], 'text': text if len(text) <= 6000 else None, 'text_len': len(text)}
            ctx.count('inputs:catalogue-faults')
            if any(x.startswith('bad_qualified_datetime') for x in kinds):
                ctx.count('inputs:catalogue-faults:qualified-datetime')
        elif r >= 0.88:
            text = mutate.envelope_soup(rng)
            case = {'envelope_soup': True, 'gen': ['c07', ctx.shard, k], 'text': text}
            ctx.count('inputs:envelope-soup')
        elif r < 0.12:
            text, kind = mutate.fuzz_string(rng)
            case = {'fuzz': kind, 'gen': ['c07', ctx.shard, k], 'text': text[:3000]}
            ctx.count('inputs:fuzz')
        else:
            bname, base = bases[rng.randrange(len(bases))]
            if rng.random() < 0.25:
                try:
                    st, et, sb, eol = reencode.pick_terms(rng, base, 'E')
                    base = reencode.reencode(base, st, et, sb, eol)
                    ctx.count('inputs:reencoded')
                except Exception:
                    pass
            if r < 0.17:
                text, names_ = base, ['unmutated']
            else:
                text, names_ = mutate.mutate(rng, base)
            if k % 5 == 2 and len(text) > 200:
                # any C0 control character (not only the ones the package's tables name) inside an element value of a body segment
                t0_ = text[105] if len(text) > 105 else '~'
                cc_ = rng.choice([c for c in map(chr, range(1, 32)) if c not in text[:106] and c not in '\r\n'])
                cut_ = [m_ for m_ in range(300, len(text) - 5) if text[m_].isalnum() and text[m_ - 1].isalnum()]
                if cut_:
                    m_ = rng.choice(cut_)
                    text = text[:m_] + cc_ + text[m_:]
                    names_ = list(names_) + ['c0-control-character:%02x' % ord(cc_)]
                    ctx.count('inputs:c0-control-character-in-a-value')
            if k % 5 == 4 and len(text) > 110 and text[:3] == 'ISA':
                # a later interchange whose ISA12 names a version there is no control map for (with and without a group inside)
                e_, s_ = text[3], text[105]
                ver_ = rng.choice(['00400', '00402', '00301', '00200', '     ', 'X0401'])
                isa_ = text[:106].split(e_)
                if len(isa_) == 17:
                    isa_[12] = ver_
                    isa_[13] = '%09d' % rng.randint(1, 999999998)
                    inner_ = (e_.join(['GS', 'HC', 'A', 'B', '20240102', '1230', '7', 'X', '004010X098A1']) + s_ + e_.join(['GE', '0', '7']) + s_) if rng.random() < 0.4 else ''
                    text = text + e_.join(isa_) + inner_ + e_.join(['IEA', '1' if inner_ else '0', isa_[13]]) + s_
                    names_ = list(names_) + ['later-interchange-of-unknown-version:' + ver_]
                    ctx.count('inputs:later-interchange-of-unknown-version')
            case = {'base': bname, 'mutations': names_, 'gen': ['c07', ctx.shard, k], 'text': text if len(text) <= 6000 else None, 'text_len': len(text)}
            ctx.count('inputs:mutated')
            if 'component-cut' in names_:
                ctx.count('inputs:composite-cut-short')
            if 'counts:hostile-numeral' in names_:
                ctx.count('inputs:hostile-numeral-in-count')
        one_input(ctx, text, k, case, sigs)
        n += 1
        ctx.sample({k2: v for k2, v in case.items() if k2 != 'text'} | {'text_head': text[:300]})
    ctx.case(n=n, sigs=sorted(sigs))


def replay(ctx, case):
    text = case.get('text')
    if text is None:
        raise RuntimeError('replay needs the text (inputs longer than 6000 characters are regenerated from case["gen"] with the same VERIF_SEED)')
    if 'loop_id' in case:
        run_context(ctx, text, case['loop_id'], case)
    elif 'sinks' in case:
        run_doc(ctx, text, tuple(case['sinks']), case.get('charset', 'E'), case)
    else:
        run_reader(ctx, text, case)
        for sinks in ALL_SINKS:
            run_doc(ctx, text, sinks, 'E', case)
