"""C14 - syntax notes P/R/E/C/L evaluated exactly as X12 defines them (exhaustive over shipped maps)."""
import itertools

from vlib import refmap
from vlib.worker import exc_key

PROPERTY = 'C14'
LEVEL = 'exploration'
EXHAUSTIVE = {'quick': True, 'thorough': True}
RULE = ('Every <syntax> note of every segment of every shipped map file (read independently from the XML) x all 2^n presence patterns of the '
        'mentioned elements x every segment length 0..max position+1. Monitors: (1) note text parsed by the real loader equals the independent '
        'parse; (2) pyx12.syntax.is_syntax_valid equals the X12 definition; (3) routing: element errors of segment_if.is_valid with the notes '
        'active minus the errors with the notes removed must be exactly one code-10 error per violated E note and one code-2 error per other '
        'violated note (multiset). A second variant writes every present position as \':X\' (first component empty, second not: still present). The thorough tier additionally fills absent-but-mentioned positions with explicit empty elements/blank '
        'composites and uses multi-component composites. non-trivial = distinct (map, segment path, note, pattern, length) tuples in which the '
        'note is violated.')
ASSUMPTIONS = ['an element is "present" when its value is non-empty; values used are single letters so no other check depends on the pattern except required/not-used, which the baseline run removes',
               'maps that the real loader cannot load (841, see C16 finding) are covered for monitors (1)-(2) only, through the unbound parser']
REQUIRED_COUNTERS = ['evals:after-component-edit', 'evals:present-only-in-a-later-component', 'contract:evals', 'contract:evals:violated-note', 'notes', 'evals:semantic', 'evals:routing', 'violated:P', 'violated:R', 'violated:E', 'violated:C', 'violated:L', 'satisfied']
MIN_CASES = {'quick': 100000, 'thorough': 100000}


def ref_note(text):
    t = text[0]
    idx = [int(text[i:i + 2]) for i in range(1, len(text) - 1, 2)]
    return t, idx


def ref_ok(t, idx, present):
    p = [present(i) for i in idx]
    if t == 'P':
        return all(p) or not any(p)
    if t == 'R':
        return any(p)
    if t == 'E':
        return sum(p) <= 1
    if t == 'C':
        return (not p[0]) or all(p[1:])
    if t == 'L':
        return (not p[0]) or any(p[1:])
    raise KeyError(t)


def run(ctx):
    import pyx12.map_if
    import pyx12.params
    import pyx12.segment
    import pyx12.syntax
    import pyx12.error_handler
    param = pyx12.params.params()
    files = refmap.map_files()
    nontriv = 0
    total = 0
    for fi, fn in enumerate(files):
        rroot = refmap.load(fn)
        rsegs = [s for s in refmap.segments(rroot)]
        try:
            m = pyx12.map_if.load_map_file(fn, param)
            psegs = [n for n in m.loop_segment_iterator() if n.is_segment()]
        except Exception:
            m = None
            psegs = None
            ctx.count('maps-not-loadable')
        if psegs is not None and [s.id for s in psegs] != [s.id for s in rsegs]:
            raise RuntimeError('harness: segment order of refmap and loader differ for %s' % fn)
        for si, rseg in enumerate(rsegs):
            if not rseg.syntax:
                continue
            if not ctx.mine((fn, si)):
                continue
            pseg = psegs[si] if psegs is not None else None
            if pseg is not None:
                loaded = [list(x) for x in pseg.syntax]
            else:
                loaded = [pyx12.map_if.segment_if._split_syntax(None, t) for t in rseg.syntax]
                loaded = [x for x in loaded if x is not None]
            expect = []
            for t in rseg.syntax:
                ty, idx = ref_note(t)
                expect.append([ty] + idx)
            if loaded != expect:
                ctx.viol('syntax:note-parse', 'loader parsed a syntax note differently from its text', {'map': fn, 'segment': rseg.path(), 'notes': rseg.syntax},
                         {'loaded': loaded, 'expected': expect})
                continue
            nchild = len(rseg.children)
            for note_text, syn in zip(rseg.syntax, loaded):
                ctx.count('notes')
                ty, idx = ref_note(note_text)
                if max(idx) > nchild:
                    ctx.count('info:note-mentions-position-beyond-segment-definition')
                mx = max(idx)
                # 'late': a present position holds ':X' - its first component is empty, a later one is not (still present)
                variants = ['plain', 'late'] if ctx.quick else ['plain', 'rich', 'late']
                for variant in variants:
                    for pat in itertools.product([0, 1], repeat=len(idx)):
                        for L in range(0, mx + 2):
                            vals = [''] * L
                            for i, p in zip(idx, pat):
                                if p and i <= L:
                                    vals[i - 1] = 'X'

                            def present(i, L=L, vals=vals):
                                return i <= L and vals[i - 1] != ''
                            # other positions: leave empty (baseline subtraction removes their errors)
                            txt = []
                            for k, v in enumerate(vals):
                                child = rseg.children[k] if k < nchild else None
                                if variant == 'rich' and child is not None and child.kind == 'comp':
                                    txt.append('X::Y' if v else '::')
                                elif variant == 'late':
                                    txt.append(':X' if v else '')
                                else:
                                    txt.append(v)
                            seg = pyx12.segment.Segment(rseg.id + ''.join('*' + v for v in txt), '~', '*', ':')
                            exp = ref_ok(ty, idx, present)
                            case = {'map': fn, 'segment': rseg.path(), 'note': note_text, 'data': seg.format(), 'length': L}
                            total += 1
                            ctx.count('evals:semantic')
                            if variant == 'late' and any(pat):
                                ctx.count('evals:present-only-in-a-later-component')
                            try:
                                got, msg = pyx12.syntax.is_syntax_valid(seg, syn)
                            except Exception as ex:
                                ctx.viol('syntax:%s:raises-%s' % (ty, type(ex).__name__), 'is_syntax_valid raised', case, {'exc': repr(ex), 'where': exc_key(ex)})
                                continue
                            if exp:
                                ctx.count('satisfied')
                            else:
                                ctx.count('violated:' + ty)
                                nontriv += 1
                            if bool(got) != exp:
                                ctx.viol('syntax:%s:%s' % (ty, 'false-violation' if exp else 'missed-violation'),
                                         'is_syntax_valid disagrees with the X12 definition of note type %s' % ty, case, {'got': got, 'expected': exp})
                            # the SAME segment object after an edit: presence of one named position inside the segment is flipped through
                            # component-level assignments only (set('NN-M', ...)), then the note is evaluated again
                            inside = [i for i in idx if i <= L]
                            if variant == 'plain' and inside and (L + sum(pat)) % 3 == 0:
                                fi = inside[(L + len(inside)) % len(inside)]
                                was = vals[fi - 1] != ''
                                try:
                                    if was:
                                        for cj in range(1, len(seg.elements[fi - 1]) + 1):
                                            seg.set('%02d-%d' % (fi, cj), '')
                                    else:
                                        seg.set('%02d-%d' % (fi, 2), 'Y')
                                    vals2 = list(vals)
                                    vals2[fi - 1] = '' if was else 'Y'

                                    def present2(i, L=L, vals2=vals2):
                                        return i <= L and vals2[i - 1] != ''
                                    exp2 = ref_ok(ty, idx, present2)
                                    got2, msg2 = pyx12.syntax.is_syntax_valid(seg, syn)
                                    ctx.count('evals:after-component-edit')
                                    if bool(got2) != exp2:
                                        ctx.viol('syntax:%s:after-component-edit:%s' % (ty, 'false-violation' if exp2 else 'missed-violation'),
                                                 'after a component-level edit of the same segment object the note is judged by the presence pattern of before the edit',
                                                 dict(case, edited_position=fi, now=seg.format()), {'got': got2, 'expected': exp2})
                                except Exception as ex:
                                    ctx.viol('syntax:%s:after-component-edit:raises-%s' % (ty, type(ex).__name__), 'evaluating a note on an edited segment raised', case, {'exc': repr(ex)})
                                # restore for the routing part
                                seg = pyx12.segment.Segment(rseg.id + ''.join('*' + v for v in txt), '~', '*', ':')
                            if pseg is None:
                                ctx.count('evals:unroutable-map-not-loadable')
                                continue
                            # routing through segment validation, all notes of the node active
                            try:
                                e1 = pyx12.error_handler.errh_list()
                                r1 = pseg.is_valid(seg, e1)
                                saved = pseg.syntax
                                pseg.syntax = []
                                try:
                                    e0 = pyx12.error_handler.errh_list()
                                    r0 = pseg.is_valid(seg, e0)
                                finally:
                                    pseg.syntax = saved
                            except Exception as ex:
                                ctx.count('routing-skipped:is_valid-raised-%s' % type(ex).__name__)   # totality of is_valid is C07/C15 business
                                continue
                            ctx.count('evals:routing')
                            base = sorted(c[0] for c in e0.err_ele)
                            full = sorted(c[0] for c in e1.err_ele)
                            extra = list(full)
                            ok = True
                            for c in base:
                                if c in extra:
                                    extra.remove(c)
                                else:
                                    ok = False
                            want = []
                            for nt in rseg.syntax:
                                t2, i2 = ref_note(nt)
                                if not ref_ok(t2, i2, present):
                                    want.append('10' if t2 == 'E' else '2')
                            if not ok or sorted(extra) != sorted(want):
                                ctx.viol('syntax:routing:%s' % ('missing' if len(extra) < len(want) else ('spurious' if len(extra) > len(want) else 'wrong-code')),
                                         'element errors caused by the syntax notes differ from one code-10 per violated E note and one code-2 per other violated note',
                                         case, {'with_notes': full, 'without_notes': base, 'expected_extra': want, 'notes': rseg.syntax})
                            elif want and r1:
                                ctx.viol('syntax:routing:result-true', 'segment is_valid returned True although a syntax note is violated', case, {})
                            elif not want and r0 and not r1:
                                ctx.viol('syntax:routing:result-false', 'segment is_valid turned False with no syntax note violated', case, {})
                            if e1.err_seg != e0.err_seg:
                                ctx.viol('syntax:routing:segment-level', 'a syntax note produced a segment-level error', case, {'with': e1.err_seg, 'without': e0.err_seg})
    ctx.case(n=total, nt_disjoint=nontriv, sample={'note': 'P0304', 'pattern': [1, 0], 'length': 4, 'expected_violated': True})
    contract_phase(ctx)


def contract_phase(ctx):
    """Record-only icontract postcondition on the real is_syntax_valid (alias in map_if re-bound) while documents with broken notes are validated."""
    from vlib import probes, pipeline, gen_doc, faults
    log = []
    patched, orig = probes.install_syntax_contract(log)
    left = probes.survivors(orig)
    ctx.count('contract:aliases-rebound', len(patched))
    if left:
        raise RuntimeError('binding audit: undecorated is_syntax_valid still bound at %r' % left)
    entries = [e for e in gen_doc.index_entries() if e['file'] != '841.4010.XXXC.xml' and ('837' in e['file'] or '835' in e['file'] or '834' in e['file'] or '820' in e['file'] or '277' in e['file'])]
    ndocs = 3 if ctx.quick else 25
    for k in range(ndocs):
        rng = ctx.sub_rng('c14c', ctx.shard, k)
        e = entries[(ctx.shard * 5 + k) % len(entries)]
        try:
            doc = gen_doc.gen_document(e, rng.randrange(1 << 30), fill=0.6, opt_prob=0.7, maxrep=1, charset='E', n_st=1)
        except gen_doc.GenFailed:
            continue
        if len(doc.recs) > 400:
            continue
        for _ in range(3):
            f = faults.inject(rng, doc, kind='syntax', tries=3)
            if f is not None:
                doc = f.doc
        del log[:]
        pipeline.validate(doc.text(), charset='E', ack=False)
        ctx.count('contract:documents')
        for (sid, note, pres, got, exp) in log:
            ctx.count('contract:evals')
            if not exp:
                ctx.count('contract:evals:violated-note')
            if got != exp:
                ctx.viol('syntax:%s:%s' % (note[0], 'false-violation' if exp else 'missed-violation'), 'contract on is_syntax_valid (document workload): result differs from the X12 definition',
                         {'map': e['file'], 'segment': sid, 'note': note, 'presence': pres}, {'got': got, 'expected': exp})


def replay(ctx, case):
    ctx.nshards = 1
    run(ctx)
