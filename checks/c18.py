"""C18 - results are a function of the document and parameters alone (histories vs fresh interpreters)."""
import io
import json
import os
import subprocess
import sys
import zlib

PROPERTY = 'C18'
LEVEL = 'exploration'
RULE = ('Each worker draws a pool of documents (fixtures, generated valid and faulty documents of different maps and versions) and processes histories of 6-20 of them (with repeats) in ONE '
        'process, re-using one params object: x12n_document with all sinks, and X12ContextReader for no loop id and for ST_LOOP. Every document of the pool is also processed alone in a FRESH '
        'interpreter started with a different PYTHONHASHSEED. Oracle: for every position of every history the verdict, error tuples with messages, XML, HTML body and acknowledgement body equal '
        'those of the fresh process after normalising exactly what the property exempts (acknowledgement ISA09/10/13, GS04/05/06 and the trailers\' copies of those control numbers; HTML date line). '
        'Sentinels: every mutable default argument and every module-level mutable container of every loaded pyx12 module is snapshotted at start and compared after each document. '
        'non-trivial = distinct (previous document, document) adjacencies compared.')
ASSUMPTIONS = ['time- and random-derived envelope fields of the acknowledgement and the HTML date line are the only exempted differences',
               'module-level containers that are registries filled at import time may only change by the first use of a map (none are expected)']
REQUIRED_COUNTERS = ['history-steps:one-object-reconfigured', 'history-steps:with-exclusion', 'cli-histories', 'histories', 'history-steps', 'fresh-processes', 'comparisons', 'sentinel-checks', 'sentinels:mutable-defaults', 'distinct-hashseeds']
MIN_CASES = {'quick': 250, 'thorough': 8000}
WATCHDOG_S = {'quick': 1500, 'thorough': 7200}


def norm_ack(ack):
    if not ack:
        return ack
    out = []
    for piece in ack.split('~'):
        piece = piece.lstrip('\r\n')
        if piece == '':
            continue
        e = piece.split('*')
        if e[0] == 'ISA' and len(e) >= 14:
            e[9] = e[10] = e[13] = '#'
        elif e[0] == 'GS' and len(e) >= 7:
            e[4] = e[5] = e[6] = '#'
        elif e[0] in ('GE', 'IEA') and len(e) >= 3:
            e[2] = '#'
        out.append('*'.join(e))
    return out


def norm_html(h):
    if not h:
        return h
    return '\n'.join(l for l in h.split('\n') if 'Analysis Date:' not in l)


def observe(text, params=None):
    """all outputs for one document, as plain data"""
    from vlib import pipeline
    import pyx12.x12context
    import pyx12.params
    import pyx12.error_handler
    res = pipeline.validate(text, params=params, charset='E' if params is None else None, ack=True, html=True, xml=True)
    out = {'verdict': res.verdict, 'exc': res.exc_key, 'errors': [list(e[:12]) + [e[13]] for e in (res.errors or [])],
           'ack': norm_ack(res.ack), 'html': norm_html(res.html), 'xml': res.xml}
    for L in (None, 'ST_LOOP'):
        try:
            p = params if params is not None else pyx12.params.params()
            rd = pyx12.x12context.X12ContextReader(p, pyx12.error_handler.errh_null(), io.StringIO(text))
            ser = []
            for node in rd.iter_segments(L):
                ser.append([node.type] + [d['segment'].format() + '|%s|%s' % (d['seg_count'], d['cur_line_number']) for d in node.iterate_segments()])
                # what an application working on the trees sees and does: the loop open/close events around the segments, and a private copy of
                # the node (kept, changed, written elsewhere) which must describe the same thing as the node it was taken from
                ev = lambda nd: [[d['type'], d['id']] if d['type'] != 'seg' else ['seg', d['segment'].format()] for d in nd.iterate_loop_segments()]
                ser.append(['events'] + ev(node))
                dup = node.copy()
                if ev(dup) != ser[-1][1:]:
                    ser.append(['copy-differs'] + ev(dup))
            out['context:%s' % L] = ser
        except Exception as ex:
            from vlib.worker import exc_key
            out['context:%s' % L] = 'EXC ' + exc_key(ex)
    return out


def sentinels():
    """{name: repr} of every mutable default argument and module-level mutable container in loaded pyx12 modules"""
    import types
    snap = {}
    for mname, mod in list(sys.modules.items()):
        if not (mname == 'pyx12' or mname.startswith('pyx12.')) or mod is None or mname.startswith('pyx12.test'):
            continue
        for aname, val in list(vars(mod).items()):
            if aname.startswith('__'):
                continue
            if isinstance(val, (list, dict, set)):
                snap['global:%s.%s' % (mname, aname)] = repr(val)[:2000]
            elif isinstance(val, types.GeneratorType):
                import inspect
                snap['global:%s.%s' % (mname, aname)] = 'generator:%s:%s' % (inspect.getgeneratorstate(val), val.gi_frame.f_lasti if val.gi_frame is not None else 'done')
            elif hasattr(val, '__next__') and hasattr(val, '__iter__') and not isinstance(val, (type, types.ModuleType)) and type(val).__module__ in ('builtins', 'itertools', 'collections'):
                try:
                    snap['global:%s.%s' % (mname, aname)] = 'iterator:%r' % (val.__reduce__(),)
                except Exception:
                    snap['global:%s.%s' % (mname, aname)] = 'iterator:%s' % type(val).__name__
            funcs = []
            if isinstance(val, types.FunctionType) and val.__module__ == mname:
                funcs.append((aname, val))
            elif isinstance(val, type) and val.__module__ == mname:
                for fname, f in vars(val).items():
                    if isinstance(f, (list, dict, set)) and not fname.startswith('__'):
                        snap['classattr:%s.%s.%s' % (mname, aname, fname)] = repr(f)[:2000]
                    f = getattr(f, '__func__', f)
                    if isinstance(f, types.FunctionType):
                        funcs.append(('%s.%s' % (aname, fname), f))
            for fname, f in funcs:
                for k, d in (getattr(f, '__dict__', None) or {}).items():
                    if isinstance(d, (list, dict, set)):
                        snap['funcattr:%s.%s.%s' % (mname, fname, k)] = repr(d)[:2000]
                for cell in (f.__closure__ or ()):
                    try:
                        d = cell.cell_contents
                    except ValueError:
                        continue
                    if isinstance(d, (list, dict, set)):
                        snap['closure:%s.%s#%x' % (mname, fname, id(cell) & 0xfff)] = repr(d)[:2000]
                for i, d in enumerate(f.__defaults__ or ()):
                    if isinstance(d, (list, dict, set)):
                        snap['default:%s.%s#%d' % (mname, fname, i)] = repr(d)[:500]
                for k, d in (f.__kwdefaults__ or {}).items():
                    if isinstance(d, (list, dict, set)):
                        snap['default:%s.%s#%s' % (mname, fname, k)] = repr(d)[:500]
    return snap


def child_main(path, charset='E', excl=None):
    text = open(path, encoding='utf-8', newline='').read()
    import logging
    import pyx12.params
    logging.getLogger('pyx12').addHandler(logging.NullHandler())
    logging.getLogger('pyx12').propagate = False
    p = pyx12.params.params()
    p.set('charset', charset)
    if excl:
        p.set('exclude_external_codes', excl)
    out = observe(text, p)
    json.dump(out, sys.stdout)


def fresh(ctx, text, hashseed, charset='E', excl=None):
    path = os.path.join(ctx.scratch, 'c18-%d.x12' % ctx.shard)
    with open(path, 'w', encoding='utf-8', newline='') as fd:
        fd.write(text)
    env = dict(os.environ)
    env['PYTHONHASHSEED'] = str(hashseed)
    p = subprocess.run([sys.executable, '-m', 'checks.c18', '--child', path, charset, excl or ''], stdout=subprocess.PIPE, stderr=subprocess.PIPE, env=env, timeout=300,
                       cwd=os.path.dirname(os.path.dirname(os.path.abspath(__file__))))
    ctx.count('fresh-processes')
    if p.returncode != 0:
        raise RuntimeError('fresh interpreter failed: %s' % p.stderr.decode('utf-8', 'replace')[-400:])
    return json.loads(p.stdout.decode('utf-8'))


def first_diff(a, b):
    if isinstance(a, list) and isinstance(b, list):
        for i, (x, y) in enumerate(zip(a + [None] * (len(b) - len(a)), b + [None] * (len(a) - len(b)))):
            if x != y:
                return {'index': i, 'in_history': x if not isinstance(x, list) else x[:6], 'fresh': y if not isinstance(y, list) else y[:6]}
    if isinstance(a, str) and isinstance(b, str):
        la, lb = a.split('\n'), b.split('\n')
        for i, (x, y) in enumerate(zip(la + [None] * (len(lb) - len(la)), lb + [None] * (len(la) - len(lb)))):
            if x != y:
                return {'line': i, 'in_history': x, 'fresh': y}
    return {'in_history': repr(a)[:300], 'fresh': repr(b)[:300]}


def make_pool(ctx):
    from vlib import corpus, faults, gen_doc
    fx = corpus.fixtures()
    names = sorted(fx)
    pool = []
    rng = ctx.sub_rng('c18pool', ctx.shard)
    for nm in rng.sample(names, 3):
        pool.append(('fixture:' + nm, fx[nm]))
    entries = [e for e in gen_doc.index_entries() if e['file'] != '841.4010.XXXC.xml']
    rng.shuffle(entries)
    want = 7 if ctx.quick else 14
    for e in entries:
        if len(pool) >= 3 + want:
            break
        try:
            doc = gen_doc.gen_document(e, rng.randrange(1 << 30), fill=0.3, opt_prob=0.4, maxrep=1, charset='E', n_st=rng.choice([1, 2]), n_gs=1, rich=rng.random() < 0.3)
        except gen_doc.GenFailed:
            continue
        if len(doc.recs) > 200:
            continue
        kinds = []
        for _ in range(rng.choice([0, 2, 3, 6])):
            f = faults.inject(rng, doc)
            if f is not None:
                doc = f.doc
                kinds.append(f.kind)
        if rng.random() < 0.3:
            # several errors on one segment: the order of their AK3/AK4 lines must not depend on hashing
            cands = [i for i, r in enumerate(doc.recs) if faults.is_body(r) and len(r.node.children) >= 4]
            if cands:
                i = rng.choice(cands)
                doc = faults.clone(doc)
                doc.recs[i].vals.append('EXTRA')
                doc.recs[i].vals[0] = doc.recs[i].vals[0] if isinstance(doc.recs[i].vals[0], list) else doc.recs[i].vals[0]
                doc.recs.insert(i + 1, gen_doc.Rec(faults._FakeNode('ZZZ'), ['X'], list(doc.recs[i].chain)))
                kinds.append('multi')
        pool.append(('gen:%s:%s' % (e['file'], ','.join(kinds) or 'valid'), doc.text()))
    # always a 4010 278 request: its map is chosen at the BHT (BHT02 = 13), not at the GS - a second place where per-process state can leak
    for e in entries:
        if e['file'].startswith('278.') and e.get('tspc') == '13':
            try:
                doc = gen_doc.gen_document(e, rng.randrange(1 << 30), fill=0.3, opt_prob=0.4, maxrep=1, charset='E', n_st=2, n_gs=1)
                if len(doc.recs) <= 300:
                    pool.append(('directed:278-request:%s' % e['file'], doc.text()))
            except gen_doc.GenFailed:
                pass
            break
    # a document whose only fault is a value outside an external code set: what it gets depends on the exclusion option of THIS run alone
    for e in entries:
        try:
            doc = gen_doc.gen_document(e, rng.randrange(1 << 30), fill=0.5, opt_prob=0.6, maxrep=1, charset='E', n_st=1, n_gs=1)
        except gen_doc.GenFailed:
            continue
        if len(doc.recs) > 200:
            continue
        f = None
        for _ in range(6):
            f = faults.inject(rng, doc, kind='bad_code', tries=3)
            if f is not None and getattr(f, 'external', None):
                break
            f = None
        if f is not None:
            pool.append(('directed:outside-external-set:%s:%s' % (f.external, e['file']), f.doc.text()))
            break
    # the same data under both interchange versions (the extended character set differs: ^ and ` are 5010 only)
    if '834_lui_id' in fx and '834_lui_id_5010' in fx:
        for nm in ('834_lui_id', '834_lui_id_5010'):
            pool.append(('directed:cross-version:' + nm, fx[nm].replace('NM1*IL*1*DOE*JOHN', 'NM1*IL*1*D`ARCY*JO^HN')))
    # a document with trailing separators + unknown id on the same segment: several segment-level codes at once
    pool.append(('directed:multi-code-segment', fx['simple1'].replace('ST*837*', 'ST*837*') if False else
                 'ISA*00*          *00*          *ZZ*ZZ000          *ZZ*ZZ001          *030828*1128*U*00401*000010121*0*T*:~\nGS*HC*ZZ000*ZZ001*20030828*1128*17*X*004010X098A1~\n'
                 'ST*837*0001~\nBHT*0019*00*121231*20050802*1202*CH~\n ZZZ*X**~\nREF*87*004010X098A1~\nQQ*1*~\n NM1*41*2*A*****46*1~\nSE*7*0001~\nGE*1*17~\nIEA*1*000010121~\n'))
    return pool


def run(ctx):
    import pyx12.params
    pool = make_pool(ctx)
    sigs = set()
    # fresh results, each with its own hash seed
    fresh_res = {}
    seeds = set()
    for i, (name, text) in enumerate(pool):
        hs = 1 + (zlib.crc32(repr((ctx.seed, ctx.shard, i)).encode()) % 4000)
        seeds.add(hs)
        fresh_res[name] = fresh(ctx, text, hs)
        # the same document under a second hash seed must give the same result, too
        if i % 3 == 0:
            again = fresh(ctx, text, hs + 7)
            seeds.add(hs + 7)
            ctx.count('comparisons')
            for k in fresh_res[name]:
                if again.get(k) != fresh_res[name][k]:
                    ctx.viol('hashseed:%s' % k.split(':')[0], 'two fresh interpreters with different PYTHONHASHSEED give different results for the same document', {'document': name, 'text': text[:4000], 'hashseeds': [hs, hs + 7]},
                             dict(first_diff(fresh_res[name][k], again.get(k)), output=k))
    ctx.counters['distinct-hashseeds'] = len(seeds)
    # load everything the history will touch before the baseline snapshot (a module imported later would look like a change)
    import pyx12.x12n_document, pyx12.x12context, pyx12.xmlx12_simple, pyx12.error_debug, pyx12.errh_xml, pyx12.x12metadata, pyx12.map_override   # noqa
    observe(pool[0][1], None)
    base = sentinels()
    ctx.counters['sentinels:mutable-defaults'] = sum(1 for k in base if k.startswith('default:'))
    ctx.counters['sentinels:module-containers'] = sum(1 for k in base if k.startswith('global:'))
    for k in base:
        ctx.add('sentinel_names', k.split(':', 1)[1])
    nh = 3 if ctx.quick else 40
    n = 0
    for h in range(nh):
        rng = ctx.sub_rng('c18h', ctx.shard, h)
        plist = {}
        for cs in ('E', 'B'):
            plist[cs] = pyx12.params.params()
            plist[cs].set('charset', cs)
        one = pyx12.params.params()
        ext_sets = sorted(set(nm.split(':')[2] for nm, _t in pool if nm.startswith('directed:outside-external-set:')))
        length = rng.randint(6, 20)
        prev = None
        ctx.count('histories')
        hist = []
        for step in range(length):
            name, text = pool[rng.randrange(len(pool))] if not (prev and rng.random() < 0.2) else (prev, dict(pool)[prev])
            cs = 'B' if rng.random() < 0.3 else 'E'
            excl = None
            if h % 2 == 1:
                # ONE parameter object for the whole history, re-configured before every document (character set and the external code sets
                # to leave out): every run follows the configuration it was given, not that of an earlier run
                if ext_sets and rng.random() < 0.5:
                    excl = rng.choice(ext_sets)
                if name.startswith('directed:outside-external-set:') and rng.random() < 0.6:
                    excl = rng.choice([name.split(':')[2], None])
                one.set('charset', cs)
                one.set('exclude_external_codes', excl or '')
                hist.append(name + '/' + cs + '/' + str(excl))
                got = observe(text, one)
                ctx.count('history-steps:one-object-reconfigured')
                if excl:
                    ctx.count('history-steps:with-exclusion')
            else:
                hist.append(name + '/' + cs)
                got = observe(text, plist[cs])
            ctx.count('history-steps')
            ctx.count('history-steps:charset-' + cs)
            n += 1
            fk = name if (cs == 'E' and not excl) else (name, cs, excl)
            if fk not in fresh_res:
                fresh_res[fk] = fresh(ctx, text, 1 + zlib.crc32(repr(fk).encode()) % 4000, cs, excl)
            want = fresh_res[fk]
            for k in want:
                ctx.count('comparisons')
                if got.get(k) != want[k]:
                    ctx.viol('history:%s' % k.split(':')[0], 'a result inside a processing history differs from the result of a fresh process', {'document': name, 'history': hist[-6:], 'step': step,
                                                                                                                                      'text': text[:4000]},
                             dict(first_diff(got.get(k), want[k]), output=k))
            now = sentinels()
            ctx.count('sentinel-checks')
            for k2 in set(base) | set(now):
                if k2 not in base:
                    base[k2] = now[k2]      # first sight of a lazily imported module
                    continue
                if base.get(k2) != now.get(k2):
                    kind = {'default': 'mutable-default', 'global': 'module-container', 'classattr': 'class-attribute', 'funcattr': 'function-attribute', 'closure': 'closure-cell'}[k2.split(':')[0]]
                    if k2 not in base and kind == 'module-container' and k2.startswith('global:') and False:
                        continue
                    ctx.viol('sentinel:%s:%s' % (kind, k2.split(':', 1)[1]), 'shared mutable state changed while processing documents', {'document': name, 'history': hist[-6:]},
                             {'before': base.get(k2), 'after': now.get(k2)})
                    base[k2] = now.get(k2)
            if prev is not None:
                sigs.add('%s>%s' % (prev.split(':')[1][:12] if ':' in prev else prev, name.split(':')[1][:12] if ':' in name else name))
            prev = name
    # the command-line tools process their input files one after the other in ONE process: what a file gets must not depend on the files before it
    import os
    import subprocess
    d = os.path.join(ctx.scratch, 'c18-cli-%d' % ctx.shard)
    os.makedirs(d, exist_ok=True)
    ascii_pool = [(nm, t) for nm, t in pool if all(ord(c) < 128 for c in t) and fresh_res.get(nm, {}).get('exc') is None and fresh_res.get(nm, {}).get('ack')]
    for h in range(2 if ctx.quick else 12):
        rng = ctx.sub_rng('c18cli', ctx.shard, h)
        if len(ascii_pool) < 3:
            break
        seq = rng.sample(ascii_pool, 3)
        seq.sort(key=lambda x_: -len(fresh_res[x_[0]]['ack'] or []))           # longest acknowledgement first: leftovers would show in the later ones
        for f in os.listdir(d):
            os.unlink(os.path.join(d, f))
        paths = []
        for i, (nm, t) in enumerate(seq):
            pth = os.path.join(d, 'h%d.x12' % i)
            with open(pth, 'w', encoding='ascii', newline='') as fd:
                fd.write(t)
            paths.append(pth)
        for tool, ext, key, norm in (('x12valid', '.997', 'ack', norm_ack), ('x12html', '.html', 'html', norm_html)):
            cmd = [sys.executable, '-m', 'pyx12.scripts.' + tool, '-q'] + (['-H'] if tool == 'x12html' else []) + paths
            subprocess.run(cmd, stdout=subprocess.PIPE, stderr=subprocess.PIPE, env=dict(os.environ, PYTHONWARNINGS='ignore', PYTHONHASHSEED='0'), timeout=600, cwd=d)
            ctx.count('cli-histories')
            for i, ((nm, t), pth) in enumerate(zip(seq, paths)):
                out = pth + ext
                got = norm(open(out, encoding='utf-8', errors='replace', newline='').read()) if os.path.exists(out) else None
                ctx.count('comparisons')
                n += 1
                if got != fresh_res[nm][key]:
                    ctx.viol('cli-history:%s:file-%d-of-3' % (key, i + 1), 'what a command-line tool writes for a file depends on the files it processed before in the same run', {'tool': tool, 'documents': [x_[0] for x_ in seq], 'file_index': i},
                             dict(first_diff(got, fresh_res[nm][key]), output=key))
                if os.path.exists(out):
                    os.unlink(out)
    ctx.case(n=n, sigs=sorted(sigs), sample={'history': hist[:8]})


def replay(ctx, case):
    import pyx12.params
    text = case['text']
    a = fresh(ctx, text, 11)
    b = fresh(ctx, text, 12)
    for k in a:
        if a[k] != b.get(k):
            ctx.viol('hashseed:%s' % k.split(':')[0], 'different results under different PYTHONHASHSEED', case, dict(first_diff(a[k], b.get(k)), output=k))
    p = pyx12.params.params()
    p.set('charset', 'E')
    for i in range(3):
        got = observe(text, p)
        for k in a:
            if got.get(k) != a[k]:
                ctx.viol('history:%s' % k.split(':')[0], 'result differs from a fresh process', case, dict(first_diff(got.get(k), a[k]), output=k))


if __name__ == '__main__':
    if len(sys.argv) >= 3 and sys.argv[1] == '--child':
        child_main(sys.argv[2], sys.argv[3] if len(sys.argv) > 3 else 'E', sys.argv[4] if len(sys.argv) > 4 and sys.argv[4] else None)
