"""C16 - shipped maps, index and code tables are consistent and fully addressable (invariants over live objects)."""
import os

from vlib import refmap
from vlib.worker import exc_key

PROPERTY = 'C16'
LEVEL = 'exploration'
EXHAUSTIVE = {'quick': True, 'thorough': True}
RULE = ('Every map file shipped (all files the index names plus the other map-shaped files) is loaded by the real loader twice - from packaged resources and '
        'from an explicit map_path - and every node is visited. Invariants: file exists/loads; index keys unique; data element and external code set '
        'defined; usage in R/S/N; repeat/max_use positive int or >1; integer positions; syntax notes well formed; same-position siblings distinguishable '
        'by id or disjoint qualifier lists; getnodebypath/getnodebypath2 of the node\'s own path return the node itself (loops, segments, elements, '
        'components); paths unique; structural fingerprint identical for both loading modes and equal to an independent reading of the XML (vlib/refmap). '
        'non-trivial = distinct (map file, node path) pairs checked.')
ASSUMPTIONS = ['a syntax note that mentions a position beyond the elements its segment node defines is reported as information, not as ill-formed',
               'composite nodes report "<segment path>/" as their path; their addressability is judged through getnodebypath2(<segment path><refdes>)',
               'wrapper loops and loops whose first child is a loop have no qualifier of their own; distinguishability is judged on their entry segments']
REQUIRED_COUNTERS = ['lookups:second-sweep', 'maps-loaded-with-debug-logging', 'path-lists-compared', 'maps-loaded', 'index-entries', 'nodes:loop', 'nodes:segment', 'nodes:element', 'nodes:composite', 'lookups:getnodebypath', 'lookups:getnodebypath2',
                     'fingerprints-compared', 'data-element-refs', 'external-code-refs', 'tables:codesets-compared', 'tables:data-elements-compared', 'tables:external-refs-against-loaded-table']
MIN_CASES = {'quick': 20000, 'thorough': 20000}
SHARDS = {'quick': 16, 'thorough': 16}


def fp_ref(n):
    """fingerprint of a refmap node"""
    if n.kind == 'root':
        return ('root', n.id, tuple(fp_ref(c) for c in n.children))
    if n.kind == 'loop':
        return ('loop', n.id, n.usage, n.pos, n.repeat, tuple(fp_ref(c) for c in n.children))
    if n.kind == 'seg':
        return ('seg', n.id, n.usage, n.pos, n.max_use, tuple(n.syntax), tuple(fp_ref(c) for c in n.children))
    if n.kind == 'comp':
        return ('comp', n.id, n.usage, n.seq, n.data_ele, tuple(fp_ref(c) for c in n.children))
    return ('ele', n.id, n.usage, n.seq, n.data_ele, tuple(n.codes), n.external, n.regex)


def fp_real(n):
    if n.is_map_root():
        return ('root', n.id, tuple(fp_real(c) for k in sorted(n.pos_map) for c in n.pos_map[k]))
    if n.is_loop():
        return ('loop', n.id, n.usage, n.pos, n.repeat, tuple(fp_real(c) for k in sorted(n.pos_map) for c in n.pos_map[k]))
    if n.is_segment():
        syn = tuple(s[0] + ''.join('%02d' % i for i in s[1:]) for s in n.syntax)
        return ('seg', n.id, n.usage, n.pos, n.max_use, syn, tuple(fp_real(c) for c in n.children))
    if n.is_composite():
        return ('comp', n.id, n.usage, n.seq, n.data_ele, tuple(fp_real(c) for c in n.children))
    return ('ele', n.id, n.usage, n.seq, n.data_ele, tuple(n.valid_codes), n.external_codes, n.res)


def first_diff(a, b, path=''):
    if type(a) != type(b):
        return (path, a, b)
    if isinstance(a, tuple):
        if len(a) != len(b):
            return (path + '/len', len(a), len(b))
        for i, (x, y) in enumerate(zip(a, b)):
            d = first_diff(x, y, path + '/%s' % (a[1] if i == 0 and len(a) > 1 and isinstance(a[1], str) else i))
            if d:
                return d
        return None
    return None if a == b else (path, a, b)


def refmap_seglike(s):
    up = 'ABCDEFGHIJKLMNOPQRSTUVWXYZ'
    return 2 <= len(s) <= 3 and s[0] in up and all(c in up + '0123456789' for c in s[1:])


def valid_limit(v):
    if v is None:
        return True
    if v in ('>1', '&gt;1'):
        return True
    return v.isdigit() and int(v) >= 1


def quals_of(rseg, DE):
    """qualifier tests (AND) a data segment must pass to match this node, as the matcher documents them"""
    k = rseg.children
    out = []
    if not k:
        return out
    f = k[0]
    dt = lambda e: DE.get(e.data_ele, ('?',))[0]
    if f.kind == 'ele' and dt(f) == 'ID' and f.usage == 'R' and f.codes:
        out.append(('01', frozenset(f.codes)))
    elif rseg.id == 'ENT' and len(k) > 1 and k[1].kind == 'ele' and dt(k[1]) == 'ID' and k[1].codes:
        out.append(('02', frozenset(k[1].codes)))
    elif f.kind == 'comp' and f.children and f.children[0].codes and (dt(f.children[0]) == 'ID' or (rseg.id == 'CTX' and dt(f.children[0]) == 'AN')):
        out.append(('01-1', frozenset(f.children[0].codes)))
    elif rseg.id == 'HL' and len(k) > 2 and k[2].kind == 'ele' and k[2].codes:
        out.append(('03', frozenset(k[2].codes)))
    return out


def entry_segs(n):
    if n.kind == 'seg':
        return [n]
    if not n.children:
        return []
    fc = n.children[0]
    if fc.kind == 'seg':
        return [fc]
    out = []
    for c in n.children:
        if c.kind == 'loop':
            out += entry_segs(c)
    return out


def check_map(ctx, fn, indexed, DE, CODES, map_dir):
    import pyx12.map_if
    import pyx12.params
    param = pyx12.params.params()
    case = {'map': fn}
    nchecked = 0
    sigs = 0
    rroot = refmap.load(fn)
    # --- static invariants on the independent reading (they hold for the file whether or not pyx12 can load it)
    for n in refmap.walk(rroot):
        if n.kind == 'root':
            continue
        nchecked += 1
        sigs += 1
        ctx.count('nodes:' + {'loop': 'loop', 'seg': 'segment', 'ele': 'element', 'comp': 'composite'}[n.kind])
        c2 = dict(case, node=n.path(), kind=n.kind)
        if n.usage not in ('R', 'S', 'N'):
            ctx.viol('map:usage', 'usage is not one of R/S/N', c2, {'usage': n.usage})
        if n.kind == 'loop' and not valid_limit(n.repeat):
            ctx.viol('map:repeat:%s' % fn, 'loop repeat is not a positive integer or >1', c2, {'repeat': n.repeat})
        if n.kind == 'seg':
            if not valid_limit(n.max_use):
                ctx.viol('map:max_use', 'segment max_use is not a positive integer or >1', c2, {'max_use': n.max_use})
            for note in n.syntax:
                ok = len(note) >= 5 and note[0] in 'PRECL' and len(note) % 2 == 1 and note[1:].isdigit() and all(int(note[i:i + 2]) >= 1 for i in range(1, len(note), 2))
                if not ok:
                    ctx.viol('map:syntax-note', 'syntax note is not <type><two-digit positions, at least two>', c2, {'note': note})
                elif max(int(note[i:i + 2]) for i in range(1, len(note), 2)) > len(n.children):
                    ctx.count('info:note-position-beyond-defined-elements')
            seqs = [c.seq for c in n.children]
            if seqs != list(range(1, len(seqs) + 1)):
                ctx.viol('map:element-seq', 'element seq numbers of a segment are not 1..n', c2, {'seqs': seqs})
        if n.kind == 'comp':
            seqs = [c.seq for c in n.children]
            if seqs != list(range(1, len(seqs) + 1)):
                ctx.viol('map:element-seq', 'component seq numbers of a composite are not 1..n', c2, {'seqs': seqs})
        if n.kind == 'ele':
            ctx.count('data-element-refs')
            if n.data_ele not in DE:
                ctx.viol('map:undefined-data-element:%s' % fn, 'an element refers to a data element that dataele.xml does not define', c2, {'data_ele': n.data_ele})
            if n.external is not None:
                ctx.count('external-code-refs')
                if n.external not in CODES:
                    ctx.viol('map:undefined-external-codeset', 'an element names an external code set that codes.xml does not define', c2, {'external': n.external})
        if n.kind == 'comp' and n.data_ele is not None and n.data_ele not in DE:
            ctx.count('info:composite-data-element-not-in-dictionary')
        # sibling distinguishability at one position
        if n.kind in ('loop', 'root') or (n.kind == 'loop'):
            pass
    for n in refmap.walk(rroot):
        if n.kind not in ('root', 'loop'):
            continue
        bypos = {}
        for c in n.children:
            bypos.setdefault(c.pos, []).append(c)
        for pos, sibs in bypos.items():
            if len(sibs) < 2:
                continue
            ents = []
            for s in sibs:
                for e in entry_segs(s):
                    ents.append((s, e))
            for i in range(len(ents)):
                for j in range(i + 1, len(ents)):
                    (s1, e1), (s2, e2) = ents[i], ents[j]
                    if s1 is s2:
                        continue
                    ctx.count('sibling-pairs')
                    if e1.id != e2.id:
                        continue
                    q1, q2 = quals_of(e1, DE), quals_of(e2, DE)
                    d1, d2 = dict(q1), dict(q2)
                    disjoint = any(k in d2 and not (d1[k] & d2[k]) for k in d1)
                    if not disjoint:
                        ctx.viol('map:indistinguishable-siblings:%s:%s' % (fn, e1.id), 'two sibling nodes at one position have the same segment id and overlapping (or no) qualifier lists',
                                 dict(case, node=s1.path(), other=s2.path(), pos=pos),
                                 {'common': sorted(set.intersection(*[set(v) for v in (list(d1.values()) + list(d2.values()))]))[:10] if d1 and d2 else 'no qualifier'})
    # --- the real loader, both ways
    loaded = []
    import logging
    lg = logging.getLogger('pyx12')
    for mode, mp in (('resources', None), ('map_path', map_dir), ('resources+debug-logging', None)):
        # (third way: what the command-line tools do for -d / -v before they load anything - logging may cost time, not change the tree)
        old_level, old_prop = lg.level, lg.propagate
        try:
            if mode.endswith('debug-logging'):
                if not any(isinstance(h, logging.NullHandler) for h in lg.handlers):
                    lg.addHandler(logging.NullHandler())
                lg.propagate = False
                lg.setLevel(logging.DEBUG)
                ctx.count('maps-loaded-with-debug-logging')
            m = pyx12.map_if.load_map_file(fn, param, mp)
            loaded.append((mode, m))
        except Exception as ex:
            ctx.viol('map:load:%s:%s' % (fn, exc_key(ex)), 'a shipped map file cannot be loaded (%s)' % ('named by the index' if indexed else 'not indexed'),
                     dict(case, mode=mode), {'exc': repr(ex)[:300]})
        finally:
            lg.setLevel(old_level)
            lg.propagate = old_prop
    if not loaded:
        return nchecked, sigs
    ctx.count('maps-loaded')
    fps = []
    for mode, m in loaded:
        try:
            fps.append((mode, fp_real(m)))
        except Exception as ex:
            ctx.viol('map:fingerprint:%s' % exc_key(ex), 'walking the loaded tree raised', dict(case, mode=mode), {'exc': repr(ex)})
    want = fp_ref(rroot)
    for mode, f in fps:
        ctx.count('fingerprints-compared')
        d = first_diff(f, want)
        if d:
            ctx.viol('map:tree-differs-from-xml:%s' % mode, 'the loaded tree differs from an independent reading of the XML', dict(case, mode=mode), {'at': d[0], 'loaded': repr(d[1])[:200], 'xml': repr(d[2])[:200]})
    for mode2, f2 in fps[1:]:
        if fps[0][1] != f2:
            d = first_diff(fps[0][1], f2)
            ctx.viol('map:loading-modes-differ', 'loading from map_path (or with debug logging on) gives a different tree than the packaged resources', dict(case, mode=mode2), {'at': d})
    plists = [(mode_, [nd.get_path() for nd in m_.loop_segment_iterator() if not nd.is_map_root()]) for mode_, m_ in loaded]
    for mode2, pl in plists[1:]:
        ctx.count('path-lists-compared')
        if pl != plists[0][1]:
            k_ = next((i for i, (a, b) in enumerate(zip(pl + [None], plists[0][1] + [None])) if a != b), None)
            ctx.viol('map:node-paths-differ-between-loads:%s' % mode2.split('+')[-1], 'the paths the nodes report depend on how (or under which logging level) the map was loaded', dict(case, mode=mode2),
                     {'index': k_, 'this_load': pl[k_] if k_ is not None and k_ < len(pl) else None, 'first_load': plists[0][1][k_] if k_ is not None and k_ < len(plists[0][1]) else None})
    # --- addressability on the resource-loaded tree
    mode, m = loaded[0]
    seen_paths = {}
    wrong_first = set()
    path_count = {}
    for node in m.loop_segment_iterator():
        if not node.is_map_root():
            path_count[node.get_path()] = path_count.get(node.get_path(), 0) + 1
    for node in m.loop_segment_iterator():
        if node.is_map_root():
            continue
        p = node.get_path()
        if p in seen_paths:
            ctx.viol('map:duplicate-path:%s:%s' % (fn, node.id), 'two nodes of one map report the same path', dict(case, path=p), {'first': repr(seen_paths[p])[:80], 'second': repr(node)[:80]})
        seen_paths[p] = node
        for name in ('getnodebypath', 'getnodebypath2'):
            ctx.count('lookups:' + name)
            if name == 'getnodebypath2' and node.is_loop() and refmap_seglike(node.id):
                ctx.count('info:loop-id-reads-as-segment-id(getnodebypath2 not asserted)')
                continue
            try:
                got = getattr(m, name)(p)
            except Exception as ex:
                ctx.viol('map:%s:raises-%s:%s' % (name, type(ex).__name__, 'loop' if node.is_loop() else 'segment'), 'a node cannot be fetched by the path it reports', dict(case, path=p), {'exc': repr(ex)[:200]})
                continue
            if got is not node:
                wrong_first.add(id(node))
                ctx.viol('map:%s:wrong-node:%s:%s' % (name, fn, node.id), 'fetching a node by its own path returns another node', dict(case, path=p),
                         {'got': got.get_path() if got is not None else None})
        nchecked += 1
        if node.is_segment():
            for ch in node.children:
                targets = [(ch, '%02d' % ch.seq)]
                if ch.is_composite():
                    targets += [(sub, '%02d-%d' % (ch.seq, sub.seq)) for sub in ch.children]
                for tn, ref in targets:
                    ctx.count('lookups:getnodebypath2')
                    full = p + ref
                    try:
                        got = m.getnodebypath2(full)
                    except Exception as ex:
                        ctx.viol('map:getnodebypath2:raises-%s:element' % type(ex).__name__, 'an element/component cannot be fetched by segment path + reference designator', dict(case, path=full), {'exc': repr(ex)[:200]})
                        continue
                    if got is not tn:
                        ctx.viol('map:getnodebypath2:wrong-node:element:%s:%s' % (fn, node.id), 'segment path + reference designator returns another node', dict(case, path=full),
                                 {'got': getattr(got, 'refdes', None) or getattr(got, 'id', None), 'expected': tn.id})
                    # the element's own reported path
                    if tn.is_element():
                        try:
                            own = tn.get_path()
                            got2 = m.getnodebypath2(own)
                            if got2 is not tn:
                                ctx.viol('map:own-path:wrong-node:element:%s' % ('segment-path-carries-qualifier' if '[' in p else ('segment-path-not-unique' if path_count[p] > 1 else 'plain-segment-path')),
                                         'an element fetched by the path it reports for itself is another node', dict(case, path=own, segment_path=p),
                                         {'got': getattr(got2, 'id', None), 'expected': tn.id})
                        except Exception as ex:
                            ctx.viol('map:own-path:raises-%s:element' % type(ex).__name__, 'an element cannot be fetched by the path it reports for itself', dict(case, path=repr(tn.id)), {'exc': repr(ex)[:200]})
                    nchecked += 1
    # --- a second sweep over the same map object, deepest nodes first: a lookup is a function of the path, not of the lookups made before it
    nodes2 = [nd for nd in m.loop_segment_iterator() if not nd.is_map_root() and path_count.get(nd.get_path(), 0) == 1 and not (nd.is_loop() and refmap_seglike(nd.id))
              and id(nd) not in wrong_first]          # (what the first sweep already reported is not reported again)
    for nd in sorted(nodes2, key=lambda x: -x.get_path().count('/')):
        ctx.count('lookups:second-sweep')
        try:
            got = m.getnodebypath2(nd.get_path())
        except Exception as ex:
            ctx.viol('map:getnodebypath2:second-sweep:raises-%s' % type(ex).__name__, 'a node that was fetched by its path before cannot be fetched again', dict(case, path=nd.get_path()), {'exc': repr(ex)[:200]})
            continue
        if got is not nd:
            ctx.viol('map:getnodebypath2:second-sweep:wrong-node', 'fetching a node by its own path returns another node once other paths have been looked up', dict(case, path=nd.get_path()),
                     {'got': got.get_path() if got is not None else None})
            break
    return nchecked, sigs


def check_tables(ctx, DE, CODES, map_dir):
    """the tables the library actually loads (packaged resources and explicit directory) == the independent reading of codes.xml / dataele.xml;
    every code set and data element a map names is in the LOADED table (a loader that drops entries leaves the maps dangling)"""
    import pyx12.codes
    import pyx12.dataele
    n = 0
    for route, mp in (('resources', None), ('map_path', map_dir)):
        try:
            ext = pyx12.codes.ExternalCodes(mp)
            de = pyx12.dataele.DataElements(mp)
        except Exception as ex:
            ctx.viol('tables:load:%s' % exc_key(ex), 'loading the code / data element tables raised', {'route': route}, {'exc': repr(ex)[:300]})
            continue
        got = dict((k, list(v['codes'])) for k, v in ext.codes.items())
        for k in sorted(set(got) | set(CODES)):
            n += 1
            ctx.count('tables:codesets-compared')
            if k not in got:
                ctx.viol('tables:codeset-not-loaded', 'a code set of codes.xml is missing from the loaded table', {'route': route, 'codeset': k}, {})
            elif k not in CODES:
                ctx.viol('tables:codeset-invented', 'the loaded table has a code set codes.xml does not define', {'route': route, 'codeset': k}, {})
            elif got[k] != CODES[k]:
                a, b = set(got[k]), set(CODES[k])
                ctx.viol('tables:codeset-content', 'a loaded code set differs from codes.xml', {'route': route, 'codeset': k}, {'missing': sorted(b - a)[:8], 'extra': sorted(a - b)[:8], 'loaded': len(got[k]), 'xml': len(CODES[k])})
        gde = dict((k, (v['data_type'], int(v['min_len']), int(v['max_len']))) for k, v in de.dataele.items())
        for k in sorted(set(gde) | set(DE)):
            n += 1
            ctx.count('tables:data-elements-compared')
            if gde.get(k) != DE.get(k):
                ctx.viol('tables:data-element', 'a loaded data element differs from dataele.xml (or is missing / invented)', {'route': route, 'data_ele': k}, {'loaded': gde.get(k), 'xml': DE.get(k)})
        # what the maps name, against the loaded tables
        for fn in sorted(refmap.map_files()):
            try:
                rroot = refmap.load(fn)
            except Exception:
                continue
            for nd in refmap.walk(rroot):
                if nd.kind == 'ele' and nd.external is not None:
                    n += 1
                    ctx.count('tables:external-refs-against-loaded-table')
                    if nd.external not in ext.codes:
                        ctx.viol('tables:map-names-codeset-not-loaded', 'an element names an external code set that the loaded table does not hold', {'route': route, 'map': fn, 'codeset': nd.external, 'node': nd.path()}, {})
                        break
    return n


def run(ctx):
    DE = refmap.load_dataele()
    CODES = refmap.load_codes()
    index = refmap.load_index()
    map_dir = refmap.MAPDIR
    files = refmap.map_files()
    indexed = set(e['file'] for e in index)
    total = 0
    sigs = 0
    if ctx.shard == 0:
        import pyx12.map_index
        keys = {}
        for e in index:
            ctx.count('index-entries')
            k = (e['icvn'], e['vriic'], e['fic'], e['tspc'])
            if k in keys:
                ctx.viol('index:duplicate-key', 'two index entries have the same (icvn, vriic, fic, tspc)', {'key': k}, {'files': [keys[k], e['file']]})
            keys[k] = e['file']
            if not os.path.isfile(os.path.join(map_dir, e['file'])):
                ctx.viol('index:missing-file', 'the index names a file that is not shipped', {'file': e['file']})
        # an entry without tspc must not shadow / be shadowed ambiguously: lookup of every key returns its own file
        for mp in (None, map_dir):
            mi = pyx12.map_index.map_index(mp)
            for e in index:
                got = mi.get_filename(e['icvn'], e['vriic'], e['fic'], e['tspc'])
                total += 1
                if got != e['file']:
                    ctx.viol('index:lookup', 'index lookup of an entry\'s own key returns another file', {'entry': e}, {'got': got})
        for f in indexed:
            if f not in files:
                files.append(f)
        total += check_tables(ctx, DE, CODES, map_dir)
    else:
        ctx.count('index-entries', 0)
    for fi, fn in enumerate(sorted(files)):
        if fi % ctx.nshards != ctx.shard:
            continue
        if not os.path.isfile(os.path.join(map_dir, fn)):
            continue
        n, s = check_map(ctx, fn, fn in indexed, DE, CODES, map_dir)
        total += n
        sigs += s
    ctx.case(n=total, nt_disjoint=sigs, sample={'files': [f for i, f in enumerate(sorted(files)) if i % ctx.nshards == ctx.shard]})


def replay(ctx, case):
    DE = refmap.load_dataele()
    CODES = refmap.load_codes()
    index = refmap.load_index()
    check_map(ctx, case['map'], case['map'] in set(e['file'] for e in index), DE, CODES, refmap.MAPDIR)
