"""C12 - validation results do not depend on delimiters or line layout (metamorphic)."""
import zlib

from vlib import corpus, faults, gen_doc, mutate, pipeline, reencode, ref_ack
from vlib.worker import exc_key

PROPERTY = 'C12'
LEVEL = 'exploration'
RULE = ('Base documents: fixtures, generated valid documents, documents with 1-4 catalogue faults, structurally mutated documents (only those on which validation completes). Each base is '
        're-encoded k times (4 quick / 12 thorough) with admissible delimiter triples (characters absent from the data, component separator inside the declared character set, segment and '
        'element separators may be control characters) and a line-break convention from {none, LF, CRLF, CR, doubled LF}; a newline as segment terminator is a separate labelled configuration in '
        'the thorough tier. Oracle: verdict, multiset of (level, interchange/group/set ordinal, segment id, position in set, element, component, code, value) and the non-envelope segments of the '
        'acknowledgement are identical for the original and every re-encoding. non-trivial = distinct (document, encoding) pairs where the document has >=1 error.')
ASSUMPTIONS = ['message strings and HTML are not compared (they legitimately contain delimiters)', 'source line numbers are compared as segment ordinals, which re-encoding preserves',
               'acknowledgement envelope lines (ISA/GS/ST/SE/GE/IEA, which carry timestamps and generated control numbers) are excluded']
REQUIRED_COUNTERS = ['bases:data-holding-the-usual-delimiters', 'bases:with-TA1', 'bases:later-isa-not-106-characters', 'bases:with-data-less-segment', 'bases:with-empty-or-blank-segment', 'bases:with-trailing-separator-or-leading-blank', 'bases:longer-than-one-read-buffer', 'bases', 'bases:with-errors', 'bases:valid', 'encodings', 'encodings:control-char-delimiter', 'encodings:eol:', 'encodings:eol:\\r\\n', 'encodings:eol:\\n', 'encodings:eol:mixed', 'bases:5010-with-other-repetition-separator', 'bases:repeatable-composite-with-several-components', 'encodings:caret-between-components']
MIN_CASES = {'quick': 900, 'thorough': 30000}
WATCHDOG_S = {'quick': 1200, 'thorough': 7200}


def observe(text, charset):
    """values that are the text of a whole (invalid) composite necessarily contain the document's own component
    separator: they are compared with that separator mapped to ':' and their echo in AK404/IK404 is not compared; the same
    mapping applies to identifiers echoed in AK1/AK2/IK2 (an ST02 written as a composite)"""
    res = pipeline.validate(text, charset=charset)
    if res.exc is not None:
        return None, res
    sub_t = text[104] if len(text) > 105 else ':'
    errs = []
    composite_values = set()
    for e in (res.errors or []):
        v = e[10]
        if isinstance(v, str) and sub_t in v and not (len(v) <= 5 and v[0] == '<' and v[-1] == '>' and v[1:-1].isalnum()):
            composite_values.add(v)
            v = v.replace(sub_t, ':')
        errs.append((e[0], e[1], e[2], e[3], e[4], e[5], e[6], e[7], e[8], e[9], v))
    errs.sort(key=repr)
    body = None
    if res.ack:
        body = []
        for s, e in ref_ack.parse(res.ack):
            if s in ('ISA', 'GS', 'ST', 'SE', 'GE', 'IEA'):
                continue
            if s in ('AK4', 'IK4') and len(e) >= 4 and (e[3] in composite_values):
                e = e[:3]
            if s in ('AK1', 'AK2', 'IK2'):
                # a control number / identifier written as a composite is echoed with the document's own component separator, or (when that is the
                # acknowledgement's ':') without it: compare without either
                e = [x.replace(sub_t, '').replace(':', '') if isinstance(x, str) else x for x in e]
            body.append((s, e))
        if composite_values:
            # an echo that holds ':' is left out of the acknowledgement altogether; compare such lines without AK404
            body = [(s, e[:3]) if s in ('AK4', 'IK4') else (s, e) for s, e in body]
    return (res.verdict, errs, body), res


def judge(ctx, base, charset, case, sigs, k_enc):
    obs0, res0 = observe(base, charset)
    if obs0 is None:
        ctx.count('base-not-completed')
        return 0
    ctx.count('bases')
    has_err = bool(obs0[1])
    ctx.count('bases:with-errors' if has_err else 'bases:valid')
    n = 0
    for j in range(k_enc):
        rng = ctx.sub_rng('enc', repr(case.get('k')), j)
        try:
            st, et, sb, eol = reencode.pick_terms(rng, base, charset, ctrl_ele=(j == 1), fmt_ele=(j == 2), force_sub=('^' if j == 3 else None))      # one encoding per base with FS/GS/RS/US/tab between elements
            if not ctx.quick and j == 0:
                used = reencode.data_chars(base)
                if '\n' not in used and '\r' not in used:
                    st, eol = '\n', ''
            text = reencode.reencode(base, st, et, sb, eol)
        except Exception:
            ctx.count('not-reencodable')
            continue
        n += 1
        ctx.count('encodings')
        ctx.count('encodings:eol:' + eol.replace('\r', '\\r').replace('\n', '\\n'))
        if ord(st) < 32 or ord(et) < 32:
            ctx.count('encodings:control-char-delimiter')
        if st == '\n':
            ctx.count('encodings:newline-terminator')
        if sb == '^':
            ctx.count('encodings:caret-between-components')
        obs, res = observe(text, charset)
        c2 = dict(case, encoding=[st, et, sb, eol])
        if obs is None:
            ctx.viol('reencoded:%s' % res.exc_key, 'a re-encoded document makes validation raise although the original completes', c2, {'exc': repr(res.exc)[:300]})
            continue
        if obs[0] != obs0[0]:
            ctx.viol('verdict-differs', 'the verdict depends on the delimiters / line layout', c2, {'original': obs0[0], 'reencoded': obs[0]})
        if obs[1] != obs0[1]:
            a = [e for e in obs0[1] if e not in obs[1]]
            b = [e for e in obs[1] if e not in obs0[1]]
            lv = sorted(set('%s/%s' % (e[0], e[9]) for e in a + b))
            ctx.viol('errors-differ:%s' % ','.join(lv)[:60], 'the set of reported errors depends on the delimiters / line layout', c2, {'only_original': a[:5], 'only_reencoded': b[:5]})
        if obs[2] != obs0[2]:
            d = next(((x, y) for x, y in zip((obs0[2] or []) + [None], (obs[2] or []) + [None]) if x != y), None)
            ctx.viol('ack-body-differs:%s' % (d[0][0] if d and d[0] else (d[1][0] if d and d[1] else 'presence')), 'the body of the acknowledgement depends on the delimiters / line layout', c2,
                     {'first_difference': d})
        if has_err:
            sigs.add('%08x' % zlib.crc32(text.encode('utf-8', 'replace')))
    return n


def run(ctx):
    sigs = set()
    n = 0
    k_enc = 4 if ctx.quick else 12
    fx = corpus.fixtures()
    for name in sorted(fx):
        if ctx.mine(('fx', name)):
            n += judge(ctx, fx[name], 'E', {'fixture': name, 'k': ['fx', name], 'text': fx[name][:4000]}, sigs, k_enc)
    entries = [e for e in gen_doc.index_entries() if e['file'] != '841.4010.XXXC.xml']
    per = (300 if ctx.quick else 3500) // ctx.nshards
    for k in range(per):
        rng = ctx.sub_rng('c12', ctx.shard, k)
        e = entries[(k * 5 + ctx.shard) % len(entries)]
        cs = rng.choice(['B', 'E'])
        kw = dict(n_st=rng.choice([1, 2]), n_gs=rng.choice([1, 1, 2]), n_isa=rng.choice([1, 1, 1, 2]), charset=cs, rich=rng.random() < 0.5, fill=rng.choice([0.2, 0.5]),
                  opt_prob=rng.choice([0.3, 0.6]), maxrep=1)
        big = (k % 4 == 3)
        if big:
            # several read buffers long: line breaks then meet the 8 KiB boundaries of the reader
            kw.update(n_st=3, n_gs=2, maxrep=2, opt_prob=0.8, fill=0.5)
        try:
            doc = gen_doc.gen_document(e, rng.randrange(1 << 30), **kw)
        except gen_doc.GenFailed:
            continue
        if len(doc.recs) > (2500 if big else 250):
            continue
        if big:
            ctx.count('bases:longer-than-one-read-buffer' if len(doc.text()) > 8298 else 'bases:big-requested-but-short')
        kinds = []
        for _ in range(rng.choice([0, 1, 1, 2, 4])):
            f = faults.inject(rng, doc)
            if f is not None:
                doc = f.doc
                kinds.append(f.kind)
        if k % 6 == 1:
            doc = gen_doc.add_ta1(doc, ['after-isa', 'before-iea'][(k // 6) % 2])
            ctx.count('bases:with-TA1')
        if e['icvn'] == '00501' and rng.random() < 0.4:
            # a 5010 header naming another repetition separator than '^' (nothing in these documents repeats): '^' is then a character like any
            # other and, under the extended set, an admissible component separator
            used_ = reencode.data_chars(doc.text())
            cands_ = [c for c in '!&+=;,?' if c not in used_]
            if cands_:
                doc = faults.clone(doc)
                for r_ in doc.recs:
                    if r_.node.id == 'ISA':
                        r_.vals[10] = cands_[0]
                ctx.count('bases:5010-with-other-repetition-separator')
        isas = [r_ for r_ in doc.recs if r_.node.id == 'ISA']
        if len(isas) >= 2 and rng.random() < 0.5:
            # a later interchange header that is not 106 characters long (ISA13 one digit short / one long): only the first header is fixed-width
            doc = faults.clone(doc)
            r2 = [r_ for r_ in doc.recs if r_.node.id == 'ISA'][1]
            r2.vals[12] = r2.vals[12][:-1] if rng.random() < 0.5 else r2.vals[12] + '7'
            kinds.append('later-isa-not-106-characters')
            ctx.count('bases:later-isa-not-106-characters')
        text = doc.text()
        if rng.random() < 0.25:
            text, names = mutate.mutate(rng, text)
            kinds += names
            if 'truncate' in ' '.join(names):
                continue        # what follows the last terminator is not a segment: the re-encoder drops it
            if 'blank-segment' in names or 'empty-segment' in names:
                ctx.count('bases:with-empty-or-blank-segment')
        if rng.random() < 0.2:
            # a segment ending in element separators / beginning with blanks: reader-level findings that must not depend on which characters delimit
            terms0, segs0 = mutate.parse(text)
            r0 = rng.random()
            if r0 < 0.25:
                # a segment without any data ('REF**' / 'REF'): the reader's finding about it quotes the raw segment text
                cand0 = [i for i, s0 in enumerate(segs0) if i > 2 and s0[0] not in mutate.HEADERS + mutate.TRAILERS]
                if cand0:
                    segs0[rng.choice(cand0)][1] = rng.choice([[], [['']], [[''], ['']]])
                    ctx.count('bases:with-data-less-segment')
            else:
                (mutate.m_trailing_separator if r0 < 0.7 else mutate.m_leading_blank)(rng, terms0, segs0)
            text = mutate.render(terms0, segs0, '\n')
            if rng.random() < 0.3:
                # a terminator directly after a terminator (after its line break): an empty segment, whatever the layout
                k0 = rng.randrange(2, max(3, text.count('~\n') - 2))
                parts0 = text.split('~\n')
                parts0[k0] = parts0[k0] + '~\n' + rng.choice(['', '  '])
                text = '~\n'.join(parts0)
                ctx.count('bases:with-empty-or-blank-segment')
            kinds.append('trailing-separator-or-leading-blank')
            ctx.count('bases:with-trailing-separator-or-leading-blank')
        case = {'map': e['file'], 'faults': kinds, 'charset': cs, 'k': ['c12', ctx.shard, k], 'text': text if len(text) < 150000 else None}
        n += judge(ctx, text, cs, case, sigs, k_enc)
        ctx.sample({'map': e['file'], 'faults': kinds, 'text_head': text[:300]})
    # directed: 5010 documents that carry a composite the guide lets repeat, with two or more components, under a header that names another
    # repetition separator; one of the encodings puts '^' between the components
    from vlib import refmap

    def repeating(node):
        return node.kind == 'comp' and node.repeat not in (None, '', '1')
    for e in entries:
        if e['icvn'] != '00501' or not ctx.mine(('rep', e['file'], e.get('tspc'))):
            continue
        if not any(repeating(nd) for nd in refmap.walk(gen_doc.load_map(e['file']))):
            continue
        done = 0
        for t in range(12):
            if done >= (1 if ctx.quick else 6):
                break
            try:
                doc = gen_doc.gen_document(e, zlib.crc32(repr((ctx.seed, 'rep', e['file'], t)).encode()), n_st=1, n_gs=1, n_isa=1, charset='E', rich=False, fill=0.8, opt_prob=1.0, maxrep=1)
            except gen_doc.GenFailed:
                continue
            if len(doc.recs) > 600:
                continue
            hit = False
            for r_ in doc.recs:
                for kid in getattr(r_.node, 'children', []):
                    if repeating(kid) and kid.seq <= len(r_.vals) and isinstance(r_.vals[kid.seq - 1], list) and sum(1 for x in r_.vals[kid.seq - 1] if x != '') >= 2:
                        hit = True
            if not hit:
                continue
            used_ = reencode.data_chars(doc.text())
            cands_ = [c for c in '!&+=;,?' if c not in used_]
            if not cands_:
                continue
            for r_ in doc.recs:
                if r_.node.id == 'ISA':
                    r_.vals[10] = cands_[0]
            if '^' in reencode.data_chars(doc.text()):
                continue
            done += 1
            ctx.count('bases:repeatable-composite-with-several-components')
            text = doc.text()
            n += judge(ctx, text, 'E', {'map': e['file'], 'faults': ['directed:repeatable-composite'], 'charset': 'E', 'k': ['c12rep', e['file'], t], 'text': text if len(text) < 150000 else None}, sigs, max(k_enc, 4))
    # directed: documents written in other delimiters whose DATA holds the characters that usually delimit (~ * :) - in values that are reported
    # (too long), so that the acknowledgement has to decide what to do with them; that decision must not depend on the input's delimiters either
    nd = (40 if ctx.quick else 600) // ctx.nshards + 1
    for t in range(nd):
        rng = ctx.sub_rng('c12punct', ctx.shard, t)
        e = entries[(t * 11 + ctx.shard * 3) % len(entries)]
        cs = rng.choice(['B', 'E'])
        st0, et0, sb0 = rng.choice([('!', '|', '/'), ('\n', '+', '?'), ("'", '|', '=')])
        try:
            doc = gen_doc.gen_document(e, rng.randrange(1 << 30), n_st=rng.choice([1, 2]), n_gs=1, n_isa=1, charset=cs, rich=False, fill=0.4, opt_prob=0.5, maxrep=1,
                                       forbid='~*:^' + st0 + et0 + sb0)
        except gen_doc.GenFailed:
            continue
        if len(doc.recs) > 250:
            continue
        sites = [x for x in faults.element_sites(doc, None) if faults._present(x[4]) and x[1].usage != 'N' and faults._plain_site(x[0], x[1], x[2], x[3], x[4], doc)
                 and gen_doc.dtype_of(x[1])[0] in ('AN', 'ID')]
        rng.shuffle(sites)
        if not sites:
            continue
        doc = faults.clone(doc)
        for (i2, node2, ep2, sp2, cur2) in sites[:rng.randint(1, 3)]:
            mx = gen_doc.dtype_of(node2)[2]
            v = rng.choice(['A:B', 'M:', '*', 'X*Y', ':', '1*2:3'] + (['A~B', '~'] if cs == 'E' else []))
            faults.set_value(doc.recs[i2], ep2, sp2, v + 'Q' * max(0, mx + 1 - len(v)))
        text = doc.text(st0, et0, sb0, '\n' if st0 != '\n' else '')
        ctx.count('bases:data-holding-the-usual-delimiters')
        n += judge(ctx, text, cs, {'map': e['file'], 'faults': ['directed:data-holding-the-usual-delimiters'], 'charset': cs, 'k': ['c12punct', ctx.shard, t], 'text': text if len(text) < 150000 else None}, sigs, k_enc)
    ctx.case(n=n, sigs=sorted(sigs))


def replay(ctx, case):
    text = case.get('text')
    if text is None:
        raise RuntimeError('case text not stored; re-run with the same VERIF_SEED')
    st, et, sb, eol = case['encoding']
    obs0, r0 = observe(text, case.get('charset', 'E'))
    obs, r = observe(reencode.reencode(text, st, et, sb, eol), case.get('charset', 'E'))
    if obs != obs0:
        ctx.viol('replayed-difference', 'results differ between the original and the re-encoding', case, {'original': repr(obs0)[:1500], 'reencoded': repr(obs)[:1500]})
