"""C06 - every acknowledgement written is itself a complete, well-formed interchange."""
import io
import zlib

from vlib import corpus, faults, gen_doc, mutate, pipeline, ref_ack, ref_envelope as RE
from vlib.worker import exc_key

PROPERTY = 'C06'
LEVEL = 'exploration'
RULE = ('Inputs: small generated documents of every selectable map (4010 -> 997, 5010 -> 999), 1-3 sets, 1-3 groups, with 0-8 stacked catalogue faults, many errors on one segment, '
        'missing ST02/GS06, structural mutations, envelope soups (a well-formed ISA followed by header, trailer and body segments in arbitrary order), and a hostile family written with delimiters other than ~ * : whose offending values contain ~ * : ^ and are 1-200 characters long; plus the fixtures. Every fortieth step the last 2-3 inputs also go through the command-line validator (one invocation, several files); each <file>.997 must have the body of the in-process acknowledgement and pass the same checks. '
        'For every acknowledgement written: (a) complete - no "Failed to create" log record, runs ISA..IEA; (b) an independent tokenizer + recount find no envelope discrepancy (SE/GE/IEA counts, '
        'trailer ids, unique ST02) and the real X12Reader reports no envelope error either; (c) only acknowledgement segment ids occur, AK3/AK4/IK3/IK4 stay within their element counts and the '
        'number of AK2/AK5 loops equals the sets in the error tree - echoed data added or split nothing; (d) fed back to x12n_document it selects the 997/999 map (no map-not-found) and is accepted '
        'whenever every copied value fits the acknowledgement\'s own element definitions. non-trivial = distinct acknowledgements containing >=1 AK4/IK4 with an echoed value.')
ASSUMPTIONS = ['(d) acceptance is required only when the values copied from the input (control numbers, ids, echoed data) fit the 997/999 element definitions; otherwise only "no exception, no map-not-found"',
               'inputs for which validation itself does not complete are C07\'s business']
REQUIRED_COUNTERS = ['inputs:last-interchange-of-unknown-version', 'inputs:interchanges-of-both-versions', 'inputs:set-with-many-set-level-codes', 'inputs:ta1-requested-by-several-interchanges', 'inputs:fa-group-first', 'cli:invocations', 'cli:acks-compared', 'inputs:envelope-soup', 'acks', 'acks:997', 'acks:999', 'acks-with-echo', 'echo-with-ack-delimiter', 'reread', 'revalidated', 'revalidated:accepted']
MIN_CASES = {'quick': 500, 'thorough': 15000}
WATCHDOG_S = {'quick': 1200, 'thorough': 7200}

ACK_IDS = {'ISA', 'GS', 'ST', 'AK1', 'AK2', 'AK3', 'AK4', 'AK5', 'AK9', 'IK3', 'IK4', 'IK5', 'CTX', 'SE', 'GE', 'IEA', 'TA1'}
MAXLEN = {'AK3': 4, 'IK3': 4, 'AK4': 4, 'IK4': 4, 'AK1': 3, 'AK2': 3, 'AK5': 6, 'IK5': 6, 'AK9': 9, 'SE': 2, 'GE': 2, 'IEA': 2, 'ST': 3, 'GS': 8, 'ISA': 16, 'TA1': 5}


def check(ctx, text, res, case, sigs):
    if not res.ack:
        if any('Failed to create' in r[2] for r in res.logs):
            ctx.viol('ack:failed-to-create:nothing-written', 'creating the acknowledgement failed (logged) and nothing was written', case, {'logs': [r for r in res.logs if r[3]][:3]})
        return
    ctx.count('acks')
    ack = res.ack
    a = ref_ack.Ack(ack)
    kind = a.kind or '?'
    ctx.count('acks:' + kind)
    failed = [r for r in res.logs if 'Failed to create' in r[2]]
    if failed or not a.complete():
        ctx.viol('ack:incomplete:%s' % kind, 'an acknowledgement was written but is not complete (rendering failed part-way or it does not end in IEA)', case,
                 {'logs': failed[:2], 'ack_tail': ack[-400:]})
        return
    # (c) shape
    nv0 = ctx.counters.get('_viol', 0)
    bad_ids = [s for s, e in a.segs if s not in ACK_IDS]
    if bad_ids:
        ctx.viol('ack:foreign-segment:%s' % kind, 'the acknowledgement contains segments that are not acknowledgement segments (echoed data split a segment)', case,
                 {'ids': bad_ids[:6], 'ack': ack[:1500]})
    for s, e in a.segs:
        if s in MAXLEN and len(e) > MAXLEN[s]:
            ctx.viol('ack:extra-elements:%s:%s' % (kind, s), 'a segment of the acknowledgement has more elements than its definition (echoed data added elements)', case,
                     {'segment': [s] + e, 'ack': ack[:1500]})
            break
    why = ref_ack.shape_error(a.segs)
    if why and not bad_ids:
        ctx.viol('ack:shape:%s' % kind, 'the segments of the acknowledgement do not spell the 997 / 999 grammar (something written outside its ST..SE, or out of order)', case,
                 {'why': why, 'ids': [s_ for s_, e_ in a.segs][:40]})
    nsets_tree = sum(len(g['sets']) for i in res.shape for g in i['groups'])
    nak2 = sum(1 for s, e in a.segs if s == 'AK2')
    nak5 = sum(1 for s, e in a.segs if s in ('AK5', 'IK5'))
    if nak2 != nsets_tree or nak5 != nsets_tree:
        ctx.viol('ack:ak2-count:%s' % kind, 'the number of AK2/AK5 loops differs from the sets in the error tree', case, {'ak2': nak2, 'ak5': nak5, 'sets': nsets_tree})
    echoes = [e[3] for s, e in a.segs if s in ('AK4', 'IK4') and len(e) >= 4 and e[3] != '']
    if echoes:
        ctx.count('acks-with-echo')
        sigs.add('%08x' % zlib.crc32(ack.encode('utf-8', 'replace')))
    # (b) envelope: independent recount on my own tokenisation
    segs = [(s, e) for s, e in a.segs]
    rc = RE.recount(segs)
    if not rc.proper or rc.must:
        ctx.viol('ack:envelope:%s:%s' % (kind, ','.join(sorted(set('%s/%s' % (m[1], m[2]) for m in rc.must))) or 'nesting'),
                 'the independent recount finds an envelope discrepancy in the acknowledgement', case, {'must': rc.must, 'proper': rc.proper, 'why': rc.why_improper, 'ack': ack[:1500]})
    # (b') the real reader
    import pyx12.x12file
    ctx.count('reread')
    try:
        errs = []
        r = pyx12.x12file.X12Reader(io.StringIO(ack))
        for seg in r:
            errs += [(x[0], x[1]) for x in r.pop_errors()]
        r.cleanup()
        errs += [(x[0], x[1]) for x in r.pop_errors()]
        env = sorted(set(x for x in errs if RE.is_envelope_error(x[0], x[1])))
        if env:
            ctx.viol('ack:reader-envelope-error:%s:%s' % (kind, ','.join('%s/%s' % x for x in env)), 'the real reader reports envelope errors in the acknowledgement', case, {'errors': env, 'ack': ack[:1500]})
    except Exception as ex:
        ctx.viol('ack:reread:%s:%s' % (kind, exc_key(ex)), 're-reading the acknowledgement raised', case, {'exc': repr(ex)[:200], 'ack': ack[:1500]})
        return
    if ctx.counters.get('_viol', 0) != nv0:
        return      # structurally damaged: what re-validation says about it adds nothing
    # (d) feed it back
    ctx.count('revalidated')
    r2 = pipeline.validate(ack, charset='E', ack=False)
    if r2.exc is not None:
        import pyx12.errors
        if isinstance(r2.exc, pyx12.errors.EngineError) and str(r2.exc).startswith('Map not found'):
            ctx.viol('ack:revalidate:map-not-found:%s' % kind, 'the acknowledgement does not select the 997/999 map when fed back to the validator', case,
                     {'exc': str(r2.exc), 'ack_gs': a.gs})
        else:
            ctx.viol('ack:revalidate:%s:%s' % (kind, r2.exc_key), 're-validating the acknowledgement raised', case, {'exc': repr(r2.exc)[:300], 'ack': ack[:1500]})
        return
    if r2.verdict is True:
        ctx.count('revalidated:accepted')
        return
    # rejected: is some copied value outside the acknowledgement's own element definitions?
    if fits_definitions(a, text):
        seen = set()
        for er in (r2.errors or []):
            key = 'ack:revalidate:rejected:%s:%s:%s:%s' % (kind, er[0], er[4], er[9])
            if key in seen:
                continue
            seen.add(key)
            ctx.viol(key, 'the acknowledgement is rejected by the validator although every copied value fits its definitions', case,
                     {'error': er[:12], 'message': er[13], 'ack': ack[:2000]})
        if not r2.errors:
            ctx.viol('ack:revalidate:rejected-without-error:%s' % kind, 're-validation returns False with no error', case, {'ack': ack[:1500], 'logs': r2.error_logs()[:3]})
    else:
        ctx.count('revalidated:rejected-because-copied-values-do-not-fit')


def _ok_an(v, mn, mx):
    from vlib import ref_values
    return mn <= len(v) <= mx and v == v.rstrip() and all(c in ref_values.EXTENDED for c in v) and not any(c in v for c in '~*:')


def _ok_n(v, mn, mx):
    return v != '' and all(c in '0123456789' for c in v) and mn <= len(v) <= mx


_AK101 = []


def _ak101_codes():
    if not _AK101:
        from vlib import refmap
        codes = set()
        first = True
        for fn in ('997.4010.xml', '999.5010.xml', '999.5010X231.A1.xml'):
            try:
                root = refmap.load(fn)
            except Exception:
                continue
            for nd in refmap.walk(root):
                if nd.kind == 'seg' and nd.id == 'AK1' and nd.children:
                    c = set(nd.children[0].codes or ())
                    codes = c if first else (codes & c)
                    first = False
        _AK101.append(codes)
    return _AK101[0]


def fits_definitions(a, text):
    """conservative: True only when every value the acknowledgement copies from the input is plainly inside its 997/999 definition"""
    std_seg = {'1', '2', '3', '4', '5', '6', '7', '8', 'I4', 'I6', 'I7', 'I8', 'I9'}
    for s, e in a.segs:
        g = lambda n: e[n - 1] if n <= len(e) else ''
        if s == 'ISA':
            if len(e) != 16 or not all(_ok_an(g(n).rstrip() or 'X', 1, 15) for n in (6, 8)) or g(5) not in ('ZZ', '01', '14', '20', '27', '28', '29', '30', '33') or g(7) not in ('ZZ', '01', '14', '20', '27', '28', '29', '30', '33') or g(15) not in ('P', 'T'):
                return False
        elif s == 'GS':
            if not (_ok_an(g(2), 2, 15) and _ok_an(g(3), 2, 15) and _ok_n(g(6), 1, 9) and g(7) in ('X', 'T')):
                return False
        elif s == 'AK1':
            if not (_ok_an(g(1), 2, 2) and g(1).isalnum() and g(1).isupper() and _ok_n(g(2), 1, 9)):
                return False
            if g(1) not in _ak101_codes():
                return False            # e.g. FA: a group of acknowledgements that was acknowledged - AK101's own code list does not hold it
            if len(e) >= 3 and not _ok_an(g(3), 1, 12):
                return False
        elif s == 'AK2':
            if not (_ok_n(g(1), 3, 3) and _ok_an(g(2), 4, 9)):
                return False
            if len(e) >= 3 and g(3) != '' and not _ok_an(g(3), 1, 35):
                return False
        elif s in ('AK3', 'IK3'):
            if not (2 <= len(g(1)) <= 3 and g(1).isalnum() and g(1).isupper() and _ok_n(g(2), 1, 6)):
                return False
            if g(3) != '' and not _ok_an(g(3), 1, 6):
                return False
            if g(4) not in std_seg:
                return False
        elif s in ('AK4', 'IK4'):
            if g(2) != '' and not _ok_n(g(2), 1, 4):
                return False
            if g(4) != '' and not _ok_an(g(4), 1, 99):
                return False
        elif s == 'AK9':
            if not all(_ok_n(g(n), 1, 6) for n in (2, 3, 4)):
                return False
            if any(x not in ('1', '2', '3', '4', '5', '6', '10', '11', '12', '13', '14', '15', '16', '17', '18', '19', '23', '24', '25', '26', '') for x in e[4:]):
                return False
        elif s == 'TA1':
            from vlib import ref_values
            if not (_ok_n(g(1), 9, 9) and ref_values.date6(g(2))[0] and ref_values.hhmm(g(3))[0]):
                return False
        elif s in ('AK5', 'IK5'):
            if any(x not in ('1', '2', '3', '4', '5', '6', '7', '8', '9', '10', '11', '12', '13', '15', '16', '17', '18', '19', '23', '24', '25', '26', '27', 'I5', 'I6', '') for x in e[1:]):
                return False
    return True


HOSTILE = ['A~B', 'A*B', 'A:B', 'A^B', '~', '*', ':', '~~', '*:~', 'X' * 120 + '~', 'NM1*1~', 'AK5*A', ':1:2', 'A*B*C*D*E', 'SE*1*0001~GE*1*1~IEA*1*1~', 'Z' * 200, '^^', 'a:b:c', '~ISA*00']


def hostile_doc(rng, doc):
    """fill elements that will be echoed (invalid code / too long) with strings containing the acknowledgement's delimiters"""
    d = faults.clone(doc)
    n = 0
    sites = [s for s in faults.element_sites(d, None) if faults._present(s[4]) and s[1].usage != 'N' and faults._plain_site(s[0], s[1], s[2], s[3], s[4], d)]
    rng.shuffle(sites)
    for (i, node, ep, sp, cur) in sites[:rng.randint(1, 6)]:
        dt, mn, mx = gen_doc.dtype_of(node)
        if dt not in ('AN', 'ID'):
            continue
        v = rng.choice(HOSTILE)
        if not (node.codes or node.external) and len(v) <= mx:
            v = v + 'Q' * (mx + 1 - len(v))        # make it too long so that it is echoed
        faults.set_value(d.recs[i], ep, sp, v)
        n += 1
    # values of the envelope that the acknowledgement copies into its own header and AK1/AK2: sender/receiver ids and codes, control numbers, ST03
    if rng.random() < 0.6:
        short = [h for h in HOSTILE if len(h) <= 9]
        for what in rng.sample(['gs02', 'gs03', 'gs06', 'st02', 'st03', 'isa06', 'isa08', 'st01'], rng.randint(1, 3)):
            v = rng.choice(short)
            for r in d.recs:
                sid = r.node.id
                if what == 'gs02' and sid == 'GS':
                    r.vals[1] = v
                elif what == 'gs03' and sid == 'GS':
                    r.vals[2] = v
                elif what == 'gs06' and sid in ('GS', 'GE'):
                    r.vals[5 if sid == 'GS' else 1] = v
                elif what == 'st02' and sid in ('ST', 'SE'):
                    r.vals[1] = v
                elif what == 'st03' and sid == 'ST' and len(r.vals) >= 3:
                    r.vals[2] = v
                elif what == 'st01' and sid == 'ST':
                    r.vals[0] = v[:3]
                elif what in ('isa06', 'isa08') and sid == 'ISA':
                    r.vals[5 if what == 'isa06' else 7] = v.ljust(15)
            n += 1
    return d, n


def many_errors_one_segment(rng, doc):
    d = faults.clone(doc)
    cands = [i for i, r in enumerate(d.recs) if faults.is_body(r) and len(r.node.children) >= 6]
    if not cands:
        return d
    i = rng.choice(cands)
    r = d.recs[i]
    for k in r.node.children:
        if k.kind == 'ele' and (k.seq, None) not in faults.match_positions(r.node):
            faults.set_value(r, k.seq, None, 'q' * 90)
    for _ in range(rng.randint(0, 25)):
        r.vals.append('EXTRA')
    return d


def cli_phase(ctx, texts, sigs):
    """the command-line validator (python -m pyx12.scripts.x12valid f1 f2 ...) writes <file>.997 for every input of ONE invocation: each must pass the
    same checks as the acknowledgement written in process, and carry the same body"""
    import copy
    import os
    import subprocess
    import sys
    d = os.path.join(ctx.scratch, 'c06-cli-%d' % ctx.shard)
    os.makedirs(d, exist_ok=True)
    for f in os.listdir(d):
        os.unlink(os.path.join(d, f))
    paths = []
    for i, t in enumerate(texts):
        pth = os.path.join(d, 'in%d.x12' % i)
        with open(pth, 'w', encoding='ascii', newline='') as fd:
            fd.write(t)
        paths.append(pth)
    # the options that reach the validator: none, an excluded external code set, an explicit map directory
    from vlib import refmap
    which = (ctx.counters.get('cli:invocations', 0) + ctx.shard) % 3
    opts, kw = [([], {}), (['-x', 'states', '-x', 'entity_id'], {'exclude_external': 'states,entity_id'}), (['-m', refmap.MAPDIR], {'map_path': refmap.MAPDIR})][which]
    p = subprocess.run([sys.executable, '-m', 'pyx12.scripts.x12valid', '-q'] + opts + paths, stdout=subprocess.PIPE, stderr=subprocess.PIPE,
                       env=dict(os.environ, PYTHONWARNINGS='ignore'), timeout=300, cwd=d)
    ctx.count('cli:invocations')
    ctx.count('cli:options:' + (opts[0] if opts else 'none'))
    for i, (t, pth) in enumerate(zip(texts, paths)):
        case = {'cli': True, 'options': opts, 'file_index': i, 'files': len(texts), 'text': t if len(t) < 60000 else None}
        res = pipeline.validate(t, charset='E', **kw)
        if res.exc is not None:
            continue
        out = pth + '.997'
        got = open(out, encoding='ascii', newline='').read() if os.path.exists(out) else ''
        ctx.count('cli:acks-compared')
        if bool(got) != bool(res.ack):
            ctx.viol('cli:ack-presence', 'the command-line validator writes an acknowledgement file where the library writes none, or the other way round', case,
                     {'cli': got[:300], 'in_process': (res.ack or '')[:300], 'stderr': p.stderr.decode('ascii', 'replace')[-300:]})
            continue
        if not got:
            continue
        body = lambda a: [(s_, e_) for s_, e_ in ref_ack.parse(a) if s_ not in ('ISA', 'GS', 'ST', 'SE', 'GE', 'IEA')]
        if body(got) != body(res.ack):
            ctx.viol('cli:ack-body-differs:file-%s-of-several' % ('first' if i == 0 else 'later'), 'the acknowledgement file of the command-line validator differs from the acknowledgement written in process', case,
                     {'cli_len': len(got), 'in_process_len': len(res.ack), 'cli_tail': got[-300:]})
            continue
        r2 = copy.copy(res)
        r2.ack = got
        check(ctx, t, r2, case, sigs)


def run(ctx):
    recent = []
    sigs = set()
    n = 0
    fx = corpus.fixtures()
    for name in sorted(fx):
        if ctx.mine(('fx', name)):
            text = fx[name]
            res = pipeline.validate(text, charset='E')
            if res.exc is None:
                check(ctx, text, res, {'fixture': name, 'text': text[:3000]}, sigs)
                n += 1
    entries = [e for e in gen_doc.index_entries() if e['file'] != '841.4010.XXXC.xml' and e['fic'] != 'FA']
    per = (800 if ctx.quick else 24000) // ctx.nshards
    for k in range(per):
        rng = ctx.sub_rng('c06', ctx.shard, k)
        e = entries[(k * 7 + ctx.shard) % len(entries)]
        kw = dict(n_st=rng.choice([1, 2, 3]), n_gs=rng.choice([1, 1, 2, 3]), n_isa=1, charset='E', rich=rng.random() < 0.3, fill=rng.choice([0.2, 0.5]),
                  opt_prob=rng.choice([0.3, 0.6]), maxrep=1)
        seed = rng.randrange(1 << 30)
        try:
            doc = gen_doc.gen_document(e, seed, **kw)
        except gen_doc.GenFailed:
            continue
        if len(doc.recs) > 300:
            continue
        fam = rng.choice(['faults', 'faults', 'hostile', 'hostile', 'many', 'missing-ctl', 'mutated', 'soup', 'fa-group-first', 'ta1-requested', 'many-set-codes', 'mixed-versions'])
        terms = ('~', '*', ':')
        kinds = [fam]
        if fam == 'faults':
            for _ in range(rng.randint(0, 8)):
                f = faults.inject(rng, doc)
                if f is not None:
                    doc = f.doc
                    kinds.append(f.kind)
        elif fam == 'hostile':
            doc, nh = hostile_doc(rng, doc)
            terms = rng.choice([('!', '|', '>'), ('\n', '|', '<'), ('$', '+', '\\'), ('\x1c', '\x1d', '>')])
            ctx.count('echo-with-ack-delimiter', nh)
        elif fam == 'many':
            doc = many_errors_one_segment(rng, doc)
        elif fam == 'many-set-codes':
            # one transaction set (and its group) collecting as many DIFFERENT set-level / group-level codes as the bookkeeping can produce: control
            # number used before (23), a body finding (5), SE01 not a number and wrong (6, 4), SE02 too short and different (7, 3); GE01 wrong (5),
            # GE02 different (4), GS06 too long ...: the AK5 / AK9 written still has no more elements than its definition
            try:
                doc = gen_doc.gen_document(e, rng.randrange(1 << 30), **dict(kw, n_st=rng.choice([2, 3]), n_gs=rng.choice([1, 2])))
            except gen_doc.GenFailed:
                continue
            f = faults.inject(rng, doc, kind=rng.choice(['bad_date', 'too_long', 'bad_code']), tries=6)
            doc = faults.clone(f.doc if f is not None else doc)
            sts = [r for r in doc.recs if r.node.id == 'ST']
            ses = [r for r in doc.recs if r.node.id == 'SE']
            if len(sts) >= 2:
                j = rng.randrange(1, len(sts))
                sts[j].vals[1] = sts[j - 1].vals[1]
                ses[j].vals = [rng.choice(['X1', 'A', '1X']), sts[j].vals[1][:2]]
                if e['icvn'] == '00501' and len(sts[j].vals) >= 3 and rng.random() < 0.5:
                    sts[j].vals[2] = 'X'
            for r in doc.recs:
                if r.node.id == 'GE' and rng.random() < 0.7:
                    r.vals = [rng.choice(['X', '99', '']), rng.choice(['9', '12345678901', ''])]
            ctx.count('inputs:set-with-many-set-level-codes')
        elif fam == 'missing-ctl':
            doc = faults.clone(doc)
            for r in doc.recs:
                if r.node.id == 'ST' and rng.random() < 0.6:
                    r.vals[1] = rng.choice(['', ' ', 'ABC DEF', '0001'])
                if r.node.id == 'GS' and rng.random() < 0.5:
                    r.vals[5] = rng.choice(['', 'X', '1 2'])
                if r.node.id == 'GS' and rng.random() < 0.3:
                    r.vals[1] = rng.choice(['', 'A', 'SENDER WITH BLANK'])
        text = doc.text(terms[0], terms[1], terms[2], '\n' if terms[0] != '\n' else '')
        if fam == 'ta1-requested':
            # several interchanges, each asking for an interchange acknowledgement (ISA14 = 1): the answer is still ONE interchange
            try:
                doc = gen_doc.gen_document(e, rng.randrange(1 << 30), **dict(kw, n_isa=rng.choice([2, 3]), n_gs=1, n_st=1))
            except gen_doc.GenFailed:
                continue
            doc = faults.clone(doc)
            for r in doc.recs:
                if r.node.id == 'ISA' and rng.random() < 0.85:
                    r.vals[13] = '1'
            text = doc.text(terms[0], terms[1], terms[2], '\n' if terms[0] != '\n' else '')
            ctx.count('inputs:ta1-requested-by-several-interchanges')
        if fam in ('hostile', 'faults') and k % 3 == 0:
            # a last interchange without any group whose ISA12 names a version the package has no 997/999 for (some are listed in the map index for
            # other transactions): whatever the acknowledgement copies from the LAST header must leave it readable
            ver = rng.choice(['00400', '00402', '00301', '00200', '0050 ', 'X0401', '     '])
            ctl = '%09d' % rng.randint(1, 999999998)
            isa_ = ['ISA', '00', ' ' * 10, '00', ' ' * 10, 'ZZ', 'SENDERID'.ljust(15), 'ZZ', 'RECEIVERID'.ljust(15), '240102', '1230', 'U', ver, ctl, '0', 'P', terms[2]]
            brk_ = '\n' if terms[0] != '\n' else ''
            text = text + terms[1].join(isa_) + terms[0] + brk_ + terms[1].join(['IEA', '0', ctl]) + terms[0] + brk_
            kinds.append('last-interchange-of-unknown-version:' + ver)
            ctx.count('inputs:last-interchange-of-unknown-version')
        if fam == 'mixed-versions':
            # interchanges of both versions in one file, either order (faults in one of them half of the time): the one acknowledgement written
            # must be of ONE kind throughout (ISA12, GS08, 997/999) so that it can be read back
            others = [x for x in entries if x['icvn'] != e['icvn']]
            o = others[rng.randrange(len(others))]
            try:
                d2 = gen_doc.gen_document(o, rng.randrange(1 << 30), **dict(kw, n_st=1, n_gs=1))
            except gen_doc.GenFailed:
                continue
            if rng.random() < 0.5:
                f = faults.inject(rng, d2)
                d2 = f.doc if f is not None else d2
            parts = [doc, d2] if rng.random() < 0.5 else [d2, doc]
            text = gen_doc.concat_docs(parts).text()
            ctx.count('inputs:interchanges-of-both-versions')
        if fam == 'fa-group-first':
            # a functional group of acknowledgements (GS01 = FA) in front of the ordinary group(s) of the same interchange: the validator answers
            # the file as a whole, so the FA group's sets appear in the acknowledgement too
            fa = [x for x in gen_doc.index_entries() if x['fic'] == 'FA' and x['icvn'] == e['icvn']]
            try:
                fdoc = gen_doc.gen_document(fa[rng.randrange(len(fa))], rng.randrange(1 << 30), n_st=rng.choice([1, 2]), n_gs=1, n_isa=1, charset='E', fill=0.3, opt_prob=0.5, maxrep=1)
            except (gen_doc.GenFailed, ValueError):
                fdoc = None
            if fdoc is not None:
                la = [x for x in fdoc.text().split('~\n') if x]
                lb = [x for x in text.split('~\n') if x]
                ga = la[1:-1]                                   # GS .. GE of the FA document
                if lb and lb[0].startswith('ISA*') and lb[-1].startswith('IEA*') and ga and ga[0].startswith('GS*FA'):
                    g_ = ga[0].split('*')
                    g_[6] = '77' + g_[6][:5]                     # its own group control number
                    ga[0] = '*'.join(g_)
                    ga[-1] = '*'.join(ga[-1].split('*')[:2] + [g_[6]])
                    iea = lb[-1].split('*')
                    try:
                        iea[1] = str(int(iea[1]) + 1)
                    except ValueError:
                        pass
                    text = '~\n'.join([lb[0]] + ga + lb[1:-1] + ['*'.join(iea)]) + '~\n'
                    ctx.count('inputs:fa-group-first')
        if fam == 'soup':
            # header, trailer and body segments in arbitrary order behind a well-formed ISA: whatever the tree looks like, the acknowledgement must be whole
            text = mutate.envelope_soup(rng, e['icvn'])
            ctx.count('inputs:envelope-soup')
        if fam == 'mutated':
            text, names = mutate.mutate(rng, text)
            kinds += names
        case = {'map': e['file'], 'family': kinds, 'k': ['c06', ctx.shard, k], 'terms': list(terms), 'text': text if len(text) < 150000 else None}
        res = pipeline.validate(text, charset='E')
        n += 1
        if res.exc is not None:
            ctx.count('not-completed:' + type(res.exc).__name__)
            continue
        check(ctx, text, res, case, sigs)
        if res.ack and all(ord(c) < 128 for c in text) and len(text) < 200000:
            recent = (recent + [text])[-3:]
        if k % 40 == 39 and len(recent) >= 2:
            cli_phase(ctx, sorted(recent, key=lambda x_: -len(x_)) if (k // 40) % 2 else list(recent), sigs)
            n += 1
        if res.ack:
            ctx.sample({'map': e['file'], 'family': kinds, 'ack': res.ack[:700]})
    ctx.case(n=n, sigs=sorted(sigs))


def replay(ctx, case):
    text = case.get('text')
    if text is None:
        raise RuntimeError('case text not stored; re-run with the same VERIF_SEED')
    res = pipeline.validate(text, charset='E')
    if res.exc is None:
        check(ctx, text, res, case, set())
