"""C15 - element/composite validation enforces exactly what the map declares."""
import re
import zlib

from vlib import gen_doc, ref_values, refmap
from vlib.worker import exc_key

PROPERTY = 'C15'
LEVEL = 'exploration'
EXHAUSTIVE = {'quick': False, 'thorough': True}
RULE = ('Every element and composite node of every shipped map file that loads (quick: one node per distinct definition signature, since validation depends only on the definition and the '
        'parameters; thorough: every node) x a value catalogue built per definition (absent, empty, lengths min-1/min/max/max+1 per character class, every inline code, non-members, members and '
        'non-members of the external set, trailing-blank variants, control characters, signed/decimal numerics, valid/invalid dates and times, date/time formats given by the preceding qualifier, '
        'regex hit/miss) x charset {B,E} x external-code exclusion {off, that set}. The real element_if.is_valid / composite_if.is_valid run with the list-collecting error handler; the expected '
        'SET of codes is computed from an independent reading of map + dataele + codes; also result is False <=> a code was reported. '
        'non-trivial = distinct (definition signature, value class) pairs with a non-empty expected code set.')
ASSUMPTIONS = ['when a value contains a control character only the control-character code (and length codes) are asserted: the implementation deliberately stops there',
               'a missing required composite may be reported with code 1 or 2, a whole not-used composite with 5, 10 or I10 (the property does not pin these)',
               'nodes whose data element is undefined (C16 finding) are skipped; maps that cannot be loaded are skipped']
REQUIRED_COUNTERS = ['evals:qualified-format', 'evals:qualified-format:node-lists-several', 'composite:required-component-left-off-the-end', 'exclusion:single-other-set-with-related-name', 'evals:exclusion-through-params', 'element-nodes', 'composite-nodes', 'evals:element', 'evals:composite', 'evals:with-qualifier', 'evals:with-exclusion', 'expected:1', 'expected:10', 'expected:4', 'expected:5',
                     'expected:6', 'expected:7', 'expected:8', 'expected:9', 'expected:none']
MIN_CASES = {'quick': 150000, 'thorough': 2000000}
WATCHDOG_S = {'quick': 1200, 'thorough': 7200}

CTRL = set(map(chr, [7, 9, 10, 11, 12, 13, 0x1c, 0x1d, 0x1e, 0x1f, 1, 2, 3, 4, 5, 6, 0x11, 0x12, 0x13, 0x14, 0x15, 0x16, 0x17]))
KNOWN_FMT = ('D8', 'RD8', 'D6', 'DT', 'TM')


def ok_type(v, t, charset, icvn):
    if t == 'B':
        return True
    try:
        return ref_values.valid(v, t, charset, icvn)[0]
    except KeyError:
        return False


def expected_ele(ele, v, charset, icvn, DE, CODES, type_list=(), excluded=None, comp_present=False):
    """-> (set of codes, dontcare set)"""
    dtype, mn, mx = DE[ele.data_ele]
    if v is None or v == '':
        if ele.usage == 'R':
            return {'1'}, set()
        return set(), set()
    if ele.usage == 'N':
        return {'10'}, set()
    codes = set()
    dontcare = set()
    if dtype == 'R' or dtype[0] == 'N':
        n = len(v.replace('-', '').replace('.', ''))
    else:
        n = len(v)
    if n < mn:
        codes.add('4')
    if n > mx:
        codes.add('5')
    if any(c in CTRL for c in v):
        codes.add('6')
        return codes, {'7', '8', '9'}
    if dtype in ('AN', 'ID') and v.endswith(' ') and len(v.rstrip()) >= mn:
        codes.add('6')
    if ele.codes or ele.external:
        member = v in ele.codes
        if ele.external:
            if excluded == ele.external:
                member = True
            elif v in CODES.get(ele.external, []):
                member = True
        if not member:
            codes.add('7')
    if not ok_type(v, dtype, charset, icvn):
        codes.add({'DT': '8', 'D8': '8', 'D6': '8', 'RD8': '8', 'TM': '9'}.get(dtype, '6'))
    known = [t for t in type_list if t in KNOWN_FMT]
    if known:
        if not any(ok_type(v, t, charset, '00401') for t in known):
            codes.add('9' if 'TM' in type_list else '8')
    if ele.regex and not re.search(ele.regex, v, re.S):
        codes.add('7')
    return codes, dontcare


def catalogue(ele, DE, CODES):
    dtype, mn, mx = DE[ele.data_ele]
    vals = [None, '']
    for n in sorted({max(mn - 1, 1), mn, mx, mx + 1, min(mx, mn + 1)}):
        if n <= 0 or n > 300:
            continue
        vals += ['A' * n, '1' * n, 'a' * n, ('1' * (n - 1) + ' ') if n > 1 else ' ', ('A' * (n - 1) + ' ') if n > 1 else ' ', '9' * (n - 1) + '.' if n > 1 else '.',
                 '-' + '1' * n, '1' * max(n - 1, 1) + '.5']
    vals += ['-1', '1.5', '-', '.', '1.', '-.5', '12 ', 'AB\x07', 'A\tB', '~', '^', '`', '<>', 'é', 'A*B', '*', "!\"&'()*+,-./:;?=", 'A B', 'a*b', '#$%@', '\u0130', '\u212a', '\uff11\uff12', '\u0661\u0662\u0663', '-\u0967', '12\u00b2', '1\u0663', '20240229', '20230229', '18000101', '17991231', '20240101-20240102',
             '20240101-20241301', '20240101-20240102-20240103', '240229', '230229', '202412251230', '202412252460', '202412251260', '202402292460', '202413251230', '20241225123', '1259', '2460', '125960', '12595999', '125959999', '1', '12', '123', '0' * mn, ' ' * mn, ' A', 'A  ']
    vals += list(ele.codes[:60]) + ['ZQ9', 'zz']
    if ele.codes:
        vals += [ele.codes[0] + ' ', ele.codes[0].lower(), ' ' + ele.codes[0]]
    if ele.external and ele.external in CODES:
        ext = CODES[ele.external]
        vals += ext[:3] + ext[-2:] + ['ZZZZQ']
    if ele.regex:
        vals += ['123456789', '12345678', '1234567890', 'A23456789']
    return list(dict.fromkeys(vals))


def value_class(ele, v, DE):
    if v is None:
        return 'absent'
    if v == '':
        return 'empty'
    dtype, mn, mx = DE[ele.data_ele]
    ln = 'short' if len(v) < mn else ('long' if len(v) > mx else 'fit')
    cls = 'ctrl' if any(c in CTRL for c in v) else ('digits' if v.isdigit() else ('upper' if v.isupper() and v.isalpha() else ('lower' if v.islower() else 'mixed')))
    return '%s/%s%s' % (ln, cls, '/trail' if v.endswith(' ') else '')


def pairs(fn, rn, mn_):
    """(refmap node, pyx12 node) for element and composite nodes, walking both trees in the same order"""
    if rn.kind in ('root', 'loop'):
        mk = [c for k in sorted(mn_.pos_map) for c in mn_.pos_map[k]]
        if len(mk) != len(rn.children):
            raise RuntimeError('harness: tree shapes differ %s %s' % (fn, rn.path()))
        for a, b in zip(rn.children, mk):
            if a.id != b.id:
                raise RuntimeError('harness: node order differs %s %s' % (fn, a.path()))
            for x in pairs(fn, a, b):
                yield x
    elif rn.kind == 'seg':
        for a, b in zip(rn.children, mn_.children):
            if a.kind == 'ele':
                yield (a, b, None)
            else:
                yield (a, b, None)
                for sa, sb in zip(a.children, b.children):
                    yield (sa, sb, a)


def judge_element(ctx, fn, re_, me, comp, charset, icvn, DE, CODES, param_excl, seen_nt, exhaustive_vals=True):
    import pyx12.segment
    import pyx12.error_handler
    # qualifier context as segment_if.is_valid builds it: code list of the preceding 1250 element, or the actual DTP02
    tlists = [()]
    if re_.data_ele == '1251':
        seg = re_.parent if re_.parent.kind == 'seg' else re_.parent.parent
        prev = None
        sibs = seg.children if re_.parent.kind == 'seg' else re_.parent.children
        for s in sibs:
            if s is re_:
                break
            if getattr(s, 'data_ele', None) == '1250' and s.kind == 'ele':
                prev = s
        if prev is not None and prev.codes:
            tlists.append(tuple(prev.codes))
            for c in prev.codes[:3]:
                tlists.append((c,))
        tlists += [('D8',), ('RD8',), ('TM',), ('D8', 'RD8'), ('DT',), ('D6',)]
    excls = [None]
    if re_.external:
        excls.append(re_.external)
    for excl in excls:
        me.root.ext_codes.exclude_list = [excl] if excl else []
        for tl in tlists:
            for v in catalogue(re_, DE, CODES):
                exp, dontcare = expected_ele(re_, v, charset, icvn, DE, CODES, tl, excl)
                errh = pyx12.error_handler.errh_list()
                elem = None if v is None else pyx12.segment.Element(v)
                ctx.count('evals:element')
                if tl:
                    ctx.count('evals:with-qualifier')
                if excl:
                    ctx.count('evals:with-exclusion')
                case = {'map': fn, 'node': re_.path(), 'usage': re_.usage, 'data_ele': re_.data_ele, 'definition': list(DE[re_.data_ele]), 'value': v, 'charset': charset,
                        'type_list': list(tl), 'excluded': excl, 'in_composite': comp is not None}
                try:
                    res = me.is_valid(elem, errh, list(tl)) if tl else me.is_valid(elem, errh)
                except Exception as ex:
                    ctx.viol('element:%s' % exc_key(ex), 'element_if.is_valid raised', case, {'exc': repr(ex)[:200]})
                    continue
                got = set(e[0] for e in errh.err_ele)
                for c in (exp or ['none']):
                    ctx.count('expected:%s' % c)
                if exp:
                    seen_nt.add((sig_of(re_, comp, DE), value_class(re_, v, DE), tuple(sorted(exp))))
                if (got - dontcare) != (exp - dontcare):
                    missing = sorted(exp - got - dontcare)
                    extra = sorted(got - exp - dontcare)
                    special = ''
                    if missing == ['1'] and comp is not None and re_.seq == 1 and comp.usage != 'R':
                        special = ':first-component-of-optional-composite'
                    ctx.viol('element:codes:missing=%s:extra=%s%s' % (','.join(missing) or '-', ','.join(extra) or '-', special),
                             'the codes reported for a value differ from the set the definition implies', case, {'got': sorted(got), 'expected': sorted(exp)})
                elif (res is False) != bool(got):
                    ctx.viol('element:result:%s' % ('false-without-error' if res is False else 'true-with-error'), 'the boolean result disagrees with the errors reported', case,
                             {'result': res, 'got': sorted(got)})
                elif res is not True and res is not False:
                    ctx.viol('element:result:non-bool', 'is_valid returned neither True nor False', case, {'result': repr(res)})
    me.root.ext_codes.exclude_list = list(param_excl)


def sig_of(re_, comp, DE):
    return (re_.data_ele, tuple(DE[re_.data_ele]), re_.usage, tuple(re_.codes), re_.external, re_.regex, comp is not None and re_.seq == 1 and comp.usage)


def judge_composite(ctx, fn, rc, mc, charset, icvn, DE, CODES, rng, seen_nt):
    import pyx12.segment
    import pyx12.error_handler
    V = gen_doc.Values(rng, charset, False, '~*:^')
    subs = rc.children
    if any(s.data_ele not in DE for s in subs):
        return

    def good(s):
        return V.value(s) if s.usage != 'N' else ''
    base = [good(s) if s.usage == 'R' or (s.usage == 'S' and rng.random() < 0.5) else '' for s in subs]
    variants = [('absent', None), ('empty', ['']), ('all-empty', [''] * len(subs)), ('good', list(base)), ('too-many', list(base) + ['X']),
                ('too-many-empty-tail', list(base) + ['', 'X']),
                # components beyond the definition that are all empty (trailing component separators): still more components than defined
                ('surplus-empty', [c if c != '' else (good(subs[0]) or 'X') if k_ == 0 else c for k_, c in enumerate(base)] + ['']),
                ('surplus-empty', [c if c != '' else (good(subs[0]) or 'X') if k_ == 0 else c for k_, c in enumerate(base)] + ['', '', ''])]
    for j, s in enumerate(subs):
        b = list(base)
        b[j] = ''
        variants.append(('blank-%d' % (j + 1), b))
        b = list(base)
        b[j] = 'A' * (DE[s.data_ele][2] + 1)
        variants.append(('long-%d' % (j + 1), b))
        b = list(base)
        b[j] = good(s) if s.usage != 'N' else 'X'
        variants.append(('fill-%d' % (j + 1), b))
    # values that stop before the definition does (components left off the end), alone and together with an earlier fault in the same value:
    # every required component that is left off is a finding of its own, whatever else is wrong
    for c in range(1, len(subs)):
        full = [good(s) or 'X' if s.usage != 'N' else '' for s in subs]
        if full[c - 1] == '':
            continue                      # (the value would end in an empty component: same as a shorter cut)
        variants.append(('cut-%d' % c, full[:c]))
        b = full[:c]
        b[0] = 'A' * (DE[subs[0].data_ele][2] + 1)
        variants.append(('cut-%d-with-earlier-fault' % c, b))
        if c >= 2 and subs[0].usage == 'R':
            b = full[:c]
            b[0] = ''
            variants.append(('cut-%d-with-earlier-gap' % c, b))
        if any(s.usage == 'R' for s in subs[c:]):
            ctx.count('composite:required-component-left-off-the-end')
    first_only = [''] * len(subs)
    if subs:
        first_only[-1] = good(subs[-1]) or 'X'
        variants.append(('only-last', first_only))
    for name, comps in variants:
        ctx.count('evals:composite')
        case = {'map': fn, 'node': rc.path() + (rc.id or ''), 'usage': rc.usage, 'components': comps, 'variant': name, 'charset': charset}
        data = None if comps is None else pyx12.segment.Composite(':'.join(comps), ':')
        errh = pyx12.error_handler.errh_list()
        try:
            res = mc.is_valid(data, errh)
        except Exception as ex:
            ctx.viol('composite:%s' % exc_key(ex), 'composite_if.is_valid raised', case, {'exc': repr(ex)[:200]})
            continue
        got = sorted(e[0] for e in errh.err_ele)
        present = comps is not None and any(c != '' for c in comps)
        exp_sets = []      # list of acceptable multisets
        if not present:
            exp = [['1'], ['2']] if rc.usage == 'R' else [[]]
        elif rc.usage == 'N':
            exp = [['5'], ['10'], ['I10']]
        else:
            codes = []
            dontcare_first = False
            n = len(subs)
            if len(comps) > n:
                codes.append('3')
            for j, s in enumerate(subs):
                v = comps[j] if j < len(comps) else None
                e1, dc = expected_ele(s, v, charset, icvn, DE, CODES)
                codes += sorted(e1)
            exp = [sorted(codes)]
        if got not in [sorted(x) for x in exp]:
            special = ''
            want = sorted(exp[0])
            if present and rc.usage != 'R' and rc.usage != 'N' and subs and subs[0].usage == 'R' and (comps[0] == '') and sorted(got + ['1']) == want:
                special = ':first-component-of-optional-composite'
            ctx.viol('composite:codes:%s%s' % (name.split('-')[0], special), 'the codes reported for a composite differ from what its definition implies', case, {'got': got, 'expected_one_of': exp})
            continue
        if exp[0]:
            seen_nt.add((rc.path(), name))
        if (res is False) != bool(got):
            ctx.viol('composite:result:%s' % ('false-without-error' if res is False else 'true-with-error'), 'the boolean result disagrees with the errors reported', case, {'result': res, 'got': got})


def exclusion_through_params(ctx, DE, CODES, files):
    """The exclusion list as a user gives it: the comma separated exclude_external_codes parameter, parsed by the real
    ExternalCodes constructor.  For every external code set t: with every OTHER set excluded, t is still enforced and the
    others are not; with only t excluded the opposite."""
    import pyx12.map_if
    import pyx12.params
    import pyx12.segment
    import pyx12.error_handler
    allsets = sorted(CODES)
    # one map per external set in the quick tier, every map in the thorough tier
    uses = {}
    for fn in files:
        try:
            r = refmap.load(fn)
        except Exception:
            continue
        for n in refmap.walk(r):
            if n.kind == 'ele' and n.external and n.data_ele in DE and not n.codes and n.usage != 'N':
                uses.setdefault(n.external, {}).setdefault(fn, n.path())
    jobs = []
    for t in allsets:
        fns = sorted(uses.get(t, {}))
        if ctx.quick:
            fns = fns[:1]
        for fn in fns:
            jobs.append((t, fn))
    for ji, (t, fn) in enumerate(jobs):
        if not ctx.mine(('excl', t, fn)):
            continue
        others = [x for x in allsets if x != t]
        # a single OTHER set named alone (the form the option takes most often): sets whose name contains t's name or is contained in it, and one more
        related = [x for x in others if x in t or t in x]
        singles = related + [others[(ji * 7) % len(others)]]
        for x in related:
            ctx.count('exclusion:single-other-set-with-related-name')
        for setting, enforced_t in ((','.join(others), True), (t, False), (','.join(others[:2] + [t]), False), (None, True)) + tuple((x, True) for x in singles):
            param = pyx12.params.params()
            if setting is not None:
                param.set('exclude_external_codes', setting)
            try:
                m = pyx12.map_if.load_map_file(fn, param)
            except Exception:
                break
            r = refmap.load(fn)
            for (re_, me, comp) in pairs(fn, r, m):
                if re_.kind != 'ele' or not re_.external or re_.codes or re_.data_ele not in DE or re_.usage == 'N' or re_.external not in CODES:
                    continue
                excluded = (setting is not None and re_.external in setting.split(','))
                dtype, mn, mx = DE[re_.data_ele]
                bad = [c for c in ('ZQ', 'ZQZ', 'Z', 'ZQZQ', 'ZQZQZ', 'ZZZZZZZZZ') if mn <= len(c) <= mx and c not in CODES[re_.external]]
                if not bad or dtype not in ('ID', 'AN'):
                    continue
                v = bad[0]
                errh = pyx12.error_handler.errh_list()
                ctx.count('evals:exclusion-through-params')
                res = me.is_valid(pyx12.segment.Element(v), errh)
                got = sorted(e[0] for e in errh.err_ele)
                want = [] if excluded else ['7']
                if got != want or (res is False) != bool(got):
                    ctx.viol('exclusion:%s' % ('not-excluded-set-accepted' if not excluded else 'excluded-set-still-enforced'),
                             'the exclude_external_codes parameter changes the enforcement of a code set it does not name (or fails to switch off one it names)',
                             {'map': fn, 'node': re_.path(), 'external': re_.external, 'exclude_external_codes': setting, 'value': v}, {'got': got, 'expected': want, 'result': res})
                if re_.external == t:
                    break       # one node of the target set is enough per setting


def qualified_formats(ctx, DE, CODES, files):
    """The one place where an element's definition depends on its neighbour: DTP03 has the format that the DTP02 actually given names (among those
    the node lists).  The real segment_if.is_valid runs on DTP*<qualifier>*<format>*<value>; the findings on DTP03 must be those of that format."""
    import pyx12.map_if
    import pyx12.params
    import pyx12.segment
    import pyx12.error_handler
    samples = ['20200101', '20200229', '20200101-20200105', '202001011230', '1230', '123015', '20201301', '20200101-20201301', '202001012460', '2460', '2020010', 'X']
    for fn in files:
        if not ctx.mine(('dtp', fn)):
            continue
        try:
            m = pyx12.map_if.load_map_file(fn, pyx12.params.params())
            r = refmap.load(fn)
        except Exception:
            continue
        done = set()
        for (re_, me, comp) in pairs(fn, r, m):
            if re_.kind != 'ele' or re_.data_ele != '1251' or re_.seq != 3 or re_.parent.id != 'DTP' or re_.usage == 'N' or len(re_.parent.children) < 3:
                continue
            q_node = re_.parent.children[1]
            listed = [c for c in (q_node.codes or []) if c in KNOWN_FMT]
            sig = (tuple(sorted(listed)), re_.usage)
            if not listed or (ctx.quick and sig in done):
                continue
            done.add(sig)
            quals = re_.parent.children[0].codes or ['472']
            seg_node = me.parent
            for q in listed:
                for v in samples:
                    seg = pyx12.segment.Segment('DTP*%s*%s*%s' % (quals[0], q, v), '~', '*', ':')
                    errh = pyx12.error_handler.errh_list()
                    ctx.count('evals:qualified-format')
                    if len(listed) > 1:
                        ctx.count('evals:qualified-format:node-lists-several')
                    try:
                        seg_node.is_valid(seg, errh)
                    except Exception as ex:
                        ctx.viol('segment:%s' % exc_key(ex), 'segment_if.is_valid raised', {'map': fn, 'node': re_.path(), 'segment': seg.format()}, {'exc': repr(ex)[:200]})
                        continue
                    got = sorted(e[0] for e in errh.err_ele if e[0] in ('8', '9'))
                    ok = ok_type(v, q, 'E', m.icvn or '00401')
                    if ok != (not got):
                        ctx.viol('qualified-format:%s' % ('accepted-in-another-format' if ok is False else 'rejected-although-well-formed'),
                                 'DTP03 is not judged by the format that the DTP02 given names', {'map': fn, 'node': re_.path(), 'listed_formats': listed, 'segment': seg.format()},
                                 {'date_time_findings': got, 'well_formed_in_given_format': ok})


def run(ctx):
    import pyx12.map_if
    import pyx12.params
    DE = refmap.load_dataele()
    CODES = refmap.load_codes()
    files = refmap.map_files()
    exclusion_through_params(ctx, DE, CODES, files)
    qualified_formats(ctx, DE, CODES, files)
    seen_sig = set()
    seen_nt = set()
    total = 0
    for charset in ('E', 'B'):
        param = pyx12.params.params()
        param.set('charset', charset)
        for fn in files:
            try:
                m = pyx12.map_if.load_map_file(fn, param)
            except Exception:
                ctx.count('maps-not-loadable')
                continue
            r = refmap.load(fn)
            icvn = m.icvn or '00401'
            excl0 = list(m.ext_codes.exclude_list)
            k = 0
            for (re_, me, comp) in pairs(fn, r, m):
                k += 1
                if re_.kind == 'comp':
                    sigc = ('comp', charset, icvn, re_.usage, tuple(sig_of(s, re_, DE) if s.data_ele in DE else None for s in re_.children))
                    if ctx.quick:
                        if sigc in seen_sig or not ctx.mine(sigc):
                            seen_sig.add(sigc)
                            continue
                        seen_sig.add(sigc)
                    elif not ctx.mine((fn, re_.path(), k)):
                        continue
                    ctx.count('composite-nodes')
                    before = ctx.counters.get('evals:composite', 0)
                    judge_composite(ctx, fn, re_, me, charset, icvn, DE, CODES, ctx.sub_rng('c15', fn, k), seen_nt)
                    total += ctx.counters.get('evals:composite', 0) - before
                    continue
                if re_.data_ele not in DE:
                    ctx.count('skipped:undefined-data-element')
                    continue
                sig = (charset, icvn) + sig_of(re_, comp, DE) + ((re_.data_ele == '1251' and prev_1250_codes(re_)),)
                if ctx.quick:
                    if sig in seen_sig or not ctx.mine(sig):
                        seen_sig.add(sig)
                        continue
                    seen_sig.add(sig)
                elif not ctx.mine((fn, re_.path(), k)):
                    continue
                ctx.count('element-nodes')
                before = ctx.counters.get('evals:element', 0)
                judge_element(ctx, fn, re_, me, comp, charset, icvn, DE, CODES, excl0, seen_nt)
                total += ctx.counters.get('evals:element', 0) - before
    ctx.case(n=total, nt_disjoint=0, sigs=['%08x' % zlib.crc32(repr(x).encode()) for x in seen_nt][:200000],
             sample={'node': '/ISA_LOOP/GS_LOOP/ST_LOOP/HEADER/BHT/BHT06', 'value': 'ZQ9', 'expected_codes': ['5', '7']})


def prev_1250_codes(re_):
    sibs = re_.parent.children
    prev = None
    for s in sibs:
        if s is re_:
            break
        if getattr(s, 'data_ele', None) == '1250':
            prev = s
    return tuple(prev.codes) if prev is not None else None


def replay(ctx, case):
    import pyx12.map_if
    import pyx12.params
    DE = refmap.load_dataele()
    CODES = refmap.load_codes()
    param = pyx12.params.params()
    param.set('charset', case['charset'])
    m = pyx12.map_if.load_map_file(case['map'], param)
    r = refmap.load(case['map'])
    for (re_, me, comp) in pairs(case['map'], r, m):
        if re_.kind == 'ele' and re_.path() == case['node']:
            judge_element(ctx, case['map'], re_, me, comp, case['charset'], m.icvn or '00401', DE, CODES, [], set())
        elif re_.kind == 'comp' and re_.path() + (re_.id or '') == case['node']:
            judge_composite(ctx, case['map'], re_, me, case['charset'], m.icvn or '00401', DE, CODES, ctx.sub_rng('r'), set())
