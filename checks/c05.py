"""C05 - verdict, reported errors and acknowledgement always agree."""
import zlib

from vlib import corpus, faults, gen_doc, mutate, pipeline, ref_ack, ref_token
from vlib.worker import exc_key

PROPERTY = 'C05'
LEVEL = 'exploration'
RULE = ('Workload A (full oracle): small generated documents of every selectable map with 1-3 sets, 1-2 groups, 1-2 interchanges (same parties), valid or with 1-5 stacked '
        'faults of the catalogue (vlib/faults) and/or wrong SE/GE/IEA counts and control numbers (nesting stays proper); plus the suite\'s fixtures. Workload B (verdict oracle '
        'only): structurally mutated documents. Oracles: (1) verdict True <=> no error in the captured tree and no ERROR log record; False => something was reported; '
        '(2) the acknowledgement is addressed back to the sender, has one AK1 per received GS in order (GS01/GS06, +GS08 in 999) and one AK2 per received ST in order '
        '(ST01/ST02, +ST03), AK5/IK5 = A exactly when the tree has no error inside that set, AK901 = A exactly when no error inside that group, AK902 = GE01 received, '
        'AK903 = sets recounted from the input, AK904 = sets with AK5 A; (3) every segment/element error of the tree with a standard acknowledgement code appears as '
        'AK3/AK4 (IK3/IK4) under its set with the same segment id, position, element/component position, data element number, code and value, and the position names '
        'a real segment of that id in the input. non-trivial = distinct (map, error-code multiset, envelope shape) signatures with >=1 error.')
ASSUMPTIONS = ['data excludes the acknowledgement\'s own delimiters ~ * : ^ (that hostility belongs to C06)',
               'multi-interchange inputs share sender/receiver (which interchange a single 997 should address is not defined by the property)',
               'AK902 is compared only when GE01 is a canonical number; itemisation is checked tree => acknowledgement, not the converse',
               'a logged ERROR record counts as "reported"']
REQUIRED_COUNTERS = ['docs:finding-booked-after-the-trailer', 'docs:set-header-element-finding', 'docs:hl-with-wrong-number-and-wrong-element', 'injected-positions-checked', 'docs:two-elements-of-one-data-element-wrong-in-one-segment', 'docs:composite-and-one-of-its-components-wrong', 'envelope-discrepancies-checked', 'reader-findings-checked', 'docs:A', 'docs:B', 'docs:with-errors', 'docs:valid', 'ak2-checked', 'ak3-checked', 'ak4-checked', 'ak9-checked', 'acks:997', 'acks:999', 'addressing:checked:qualifiers-differ']
MIN_CASES = {'quick': 700, 'thorough': 20000}
WATCHDOG_S = {'quick': 1200, 'thorough': 7200}

AK3_997 = ('1', '2', '3', '4', '5', '6', '7', '8')
AK4_997 = ('1', '2', '3', '4', '5', '6', '7', '8', '9', '10')
IK3_999 = AK3_997 + ('I4', 'I6', 'I7', 'I8', 'I9')
IK4_999 = AK4_997 + ('12', '13', 'I10', 'I11', 'I12', 'I13', 'I6', 'I9')


def input_structure(text):
    """recount from the input: [ {isa elements, groups:[{gs elements, ge elements|None, sets:[{st elements, segs:[(id, pos)]}]}]} ]"""
    terms, pieces = ref_token.tokenize(text)
    inter = []
    cur_i = cur_g = cur_s = None
    for p in pieces:
        if p.blank_only:
            continue
        els = [(c[0] if len(c) == 1 else terms[2].join(c)) for c in p.elements]
        if p.sid == 'ISA':
            cur_i = {'isa': els, 'groups': []}
            inter.append(cur_i)
            cur_g = cur_s = None
        elif p.sid == 'GS' and cur_i is not None:
            cur_g = {'gs': els, 'ge': None, 'sets': []}
            cur_i['groups'].append(cur_g)
            cur_s = None
        elif p.sid == 'ST' and cur_g is not None:
            cur_s = {'st': els, 'segs': ['ST'], 'closed': False}
            cur_g['sets'].append(cur_s)
        elif p.sid == 'SE' and cur_s is not None:
            cur_s['segs'].append('SE')
            cur_s['closed'] = True
            cur_s = None
        elif p.sid == 'GE' and cur_g is not None:
            cur_g['ge'] = els
            cur_g = None
            cur_s = None
        elif p.sid == 'IEA':
            cur_i = cur_g = cur_s = None
        elif cur_s is not None:
            cur_s['segs'].append(p.sid)
    return inter


def g(e, n):
    return e[n - 1] if n <= len(e) else ''


def check_ack(ctx, text, res, case, strict=True):
    inter = input_structure(text)
    groups_in = [(ii, gi, grp) for ii, it in enumerate(inter) for gi, grp in enumerate(it['groups'])]
    if not groups_in:
        return
    fic = groups_in[-1][2]['gs'][0] if groups_in[-1][2]['gs'] else ''
    vriic = g(groups_in[-1][2]['gs'], 8)
    if fic == 'FA':
        ctx.count('acks:none-for-FA')
        return
    if not res.ack:
        if vriic[:6] in ('004010', '005010'):
            ctx.viol('ack:missing', 'no acknowledgement was written although validation completed', case, {'logs': res.error_logs()[:4]})
        return
    a = ref_ack.Ack(res.ack)
    is999 = (a.kind == '999')
    ctx.count('acks:999' if is999 else 'acks:997')
    if not a.complete():
        ctx.viol('ack:incomplete', 'the acknowledgement does not run from ISA to IEA', case, {'ack': res.ack[-600:], 'logs': res.error_logs()[:4]})
        return
    # ---- addressing
    isa_in = inter[-1]['isa']
    gs_in = groups_in[-1][2]['gs']
    if a.isa is None or a.gs is None or [g(a.isa, 5), g(a.isa, 6), g(a.isa, 7), g(a.isa, 8)] != [g(isa_in, 7), g(isa_in, 8), g(isa_in, 5), g(isa_in, 6)] \
            or [g(a.gs, 2), g(a.gs, 3)] != [g(gs_in, 3).rstrip(), g(gs_in, 2).rstrip()]:
        ctx.viol('ack:addressing', 'the acknowledgement is not addressed back to the sender', case, {'ack_isa': a.isa, 'ack_gs': a.gs, 'in_isa': isa_in, 'in_gs': gs_in})
    ctx.count('addressing:checked' + (':qualifiers-differ' if g(isa_in, 5) != g(isa_in, 7) else ''))
    # ---- groups and sets in order
    if len(a.groups) != len(groups_in):
        ctx.viol('ack:group-count', 'number of AK1 loops differs from the number of functional groups received', case, {'ak1': [x['ak1'] for x in a.groups], 'received': [x[2]['gs'][:8] for x in groups_in]})
        return
    errs = res.errors or []
    for k, ((ii, gi, grp), ag) in enumerate(zip(groups_in, a.groups)):
        want = [g(grp['gs'], 1), g(grp['gs'], 6)] + ([g(grp['gs'], 8)] if is999 else [])
        got = [g(ag['ak1'], 1), g(ag['ak1'], 2)] + ([g(ag['ak1'], 3)] if is999 else [])
        if got != want:
            ctx.viol('ack:ak1', 'AK1 does not name the group received (GS01/GS06%s)' % ('/GS08' if is999 else ''), case, {'got': got, 'want': want})
        if len(ag['sets']) != len(grp['sets']):
            ctx.viol('ack:set-count', 'number of AK2 loops differs from the number of transaction sets received in the group', case,
                     {'ak2': [s['ak2'] for s in ag['sets']], 'received': [s['st'][:3] for s in grp['sets']]})
            continue
        n_acc = 0
        for si, (st, aset) in enumerate(zip(grp['sets'], ag['sets'])):
            ctx.count('ak2-checked')
            want = [g(st['st'], 1), g(st['st'], 2).strip()] + ([g(st['st'], 3)] if is999 else [])
            got = [g(aset['ak2'], 1), g(aset['ak2'], 2)] + ([g(aset['ak2'], 3)] if is999 else [])
            if got != want:
                ctx.viol('ack:ak2', 'AK2 does not name the set received (ST01/ST02%s)' % ('/ST03' if is999 else ''), case, {'got': got, 'want': want})
            inside = [e for e in errs if (e[1], e[2], e[3]) == (ii, gi, si)]
            code = g(aset['ak5'] or [], 1)
            if code == 'A':
                n_acc += 1
            if (code == 'A') != (not inside):
                lvl = sorted(set(e[12] for e in inside))
                ctx.viol('ack:ak5:%s' % ('accepted-with-errors:' + ','.join(lvl) if code == 'A' else 'rejected-without-errors'),
                         'AK5/IK5 acceptance disagrees with the errors reported inside the set', case,
                         {'ak5': aset['ak5'], 'errors_inside': [e[:12] for e in inside[:6]], 'set': st['st'][:3], 'closed': st['closed']})
            # ---- itemisation
            check_items(ctx, st, aset, inside, is999, case)
        # ---- group totals
        ctx.count('ak9-checked')
        inside_g = [e for e in errs if (e[1], e[2]) == (ii, gi)]
        ak9 = ag['ak9'] or []
        if grp['ge'] is None:
            # the group trailer never arrived
            if [g(ak9, 2), g(ak9, 3), g(ak9, 4)] != ['0' if True else '', str(len(grp['sets'])), str(n_acc)] and (g(ak9, 3) != str(len(grp['sets'])) or g(ak9, 4) != str(n_acc)):
                ctx.viol('ack:ak9:totals:ge-missing', 'group totals of a group whose GE never arrives are not the recount', case,
                         {'ak9': ak9, 'received': len(grp['sets']), 'accepted': n_acc})
            if g(ak9, 1) == 'A':
                ctx.viol('ack:ak9:accepted-without-GE', 'a group without trailer is marked accepted', case, {'ak9': ak9})
            continue
        if (g(ak9, 1) == 'A') != (not inside_g):
            lvl = sorted(set(e[12] for e in inside_g))
            ctx.viol('ack:ak9:%s' % ('accepted-with-errors:' + ','.join(lvl) if g(ak9, 1) == 'A' else 'rejected-without-errors'),
                     'AK901 acceptance disagrees with the errors reported inside the group', case, {'ak9': ak9, 'errors_inside': [e[:12] for e in inside_g[:6]]})
        ge01 = g(grp['ge'], 1)
        if ge01.isdigit() and not (len(ge01) > 1 and ge01[0] == '0') and g(ak9, 2) != ge01:
            ctx.viol('ack:ak9:declared', 'AK902 is not the GE01 received', case, {'ak9': ak9, 'ge01': ge01})
        if g(ak9, 3) != str(len(grp['sets'])):
            ctx.viol('ack:ak9:received', 'AK903 is not the number of transaction sets in the group', case, {'ak9': ak9, 'sets': len(grp['sets'])})
        if g(ak9, 4) != str(n_acc):
            ctx.viol('ack:ak9:accepted', 'AK904 is not the number of sets acknowledged as accepted', case, {'ak9': ak9, 'accepted': n_acc})


def check_items(ctx, st, aset, inside, is999, case):
    seg_codes = IK3_999 if is999 else AK3_997
    ele_codes = IK4_999 if is999 else AK4_997
    # structure the items: list of (ak3 elements, [ak4 elements])
    blocks = []
    for sid, e in aset['items']:
        if sid in ('AK3', 'IK3'):
            blocks.append((e, []))
        elif sid in ('AK4', 'IK4') and blocks:
            blocks[-1][1].append(e)
    for er in inside:
        level, seg_id, seg_count, ele_pos, sub_pos, code, value, refnum = er[0], er[4], er[5], er[7], er[8], er[9], er[10], er[11]
        if er[12] != 'seg':
            continue        # element errors on ST/SE are reported through AK5 codes
        if level == 'seg':
            if code not in seg_codes and code != 'SEG1':
                continue
            want_code = '8' if code == 'SEG1' else code
            ctx.count('ak3-checked')
            hit = [b for b in blocks if g(b[0], 1) == seg_id and g(b[0], 2) == str(seg_count) and g(b[0], 4) == want_code]
            if not hit:
                ctx.viol('ack:ak3-missing:code-%s' % want_code, 'a segment error of the tree is not itemised as AK3/IK3 with its id, position and code', case,
                         {'error': er[:12], 'ak3_lines': [b[0] for b in blocks][:12]})
            reader_level = er[13].startswith(('Segment contains', 'Segment identifier', 'Segment "'))      # judged by check_reader_attribution
            if code != '3' and not reader_level and not (1 <= seg_count <= len(st['segs']) and st['segs'][seg_count - 1] == seg_id):
                ctx.viol('ack:segment-position', 'the position reported for a segment error does not name a segment of that id in the input', case,
                         {'error': er[:12], 'segment_at_position': st['segs'][seg_count - 1] if 1 <= seg_count <= len(st['segs']) else None})
        elif level == 'ele':
            if code not in ele_codes:
                continue
            ctx.count('ak4-checked')
            if is999:
                pos = [str(ele_pos)] + ([str(sub_pos)] if sub_pos else [])
                posmatch = lambda e: g(e, 1).split(':')[:len(pos)] == pos and (len(g(e, 1).split(':')) == len(pos) or all(x == '' for x in g(e, 1).split(':')[len(pos):]))
            else:
                pos = '%d:%d' % (ele_pos, sub_pos) if sub_pos else '%d' % ele_pos
                posmatch = lambda e: g(e, 1) == pos
            found = False
            for b in blocks:
                if g(b[0], 1) != seg_id or g(b[0], 2) != str(seg_count):
                    continue
                for e in b[1]:
                    if posmatch(e) and g(e, 3) == code and g(e, 2) == (refnum or '') and (not value or g(e, 4) == value):
                        found = True
            if not found:
                ctx.viol('ack:ak4-missing:code-%s' % code, 'an element error of the tree is not itemised as AK4/IK4 with its position, data element, code and value', case,
                         {'error': er[:12], 'blocks': [(b[0], b[1][:4]) for b in blocks if g(b[0], 1) == seg_id][:4]})
            if not (1 <= seg_count <= len(st['segs']) and st['segs'][seg_count - 1] == seg_id):
                ctx.viol('ack:segment-position', 'the position reported for an element error does not name a segment of that id in the input', case,
                         {'error': er[:12], 'segment_at_position': st['segs'][seg_count - 1] if 1 <= seg_count <= len(st['segs']) else None})


def check_reader_attribution(ctx, text, res, case):
    """(4) the reader's own findings about a segment (trailing separator -> SEG1, acknowledged as AK3 code 8; leading blank -> 1)
    hang on that segment, not on a neighbour"""
    terms, pieces = ref_token.tokenize(text)
    ii = gi = si = -1
    pos = 0
    in_set = False
    errs = res.errors or []
    for p in pieces:
        if p.blank_only:
            continue
        if p.sid == 'ISA':
            ii += 1
            gi = si = -1
            in_set = False
        elif p.sid == 'GS':
            gi += 1
            si = -1
            in_set = False
        elif p.sid == 'ST':
            si += 1
            pos = 0
            in_set = True
        pos += 1
        if not in_set:
            continue
        for flag, code, what in ((p.trailing_sep, 'SEG1', 'trailing-separator'), (p.leading_blank, '1', 'leading-blank')):
            if not flag:
                continue
            ctx.count('reader-findings-checked')
            mine = [e for e in errs if e[0] == 'seg' and e[9] == code and (e[1], e[2], e[3]) == (ii, gi, si)]
            if p.sid in ('ST', 'SE'):
                own = [e for e in mine if e[4] in ('ST', 'SE', p.sid)]      # may be filed at set level; must not name another segment
                wrong = [e for e in mine if e[4] not in ('ST', 'SE') and not any(q.sid == e[4] and (q.trailing_sep if code == 'SEG1' else q.leading_blank) for q in pieces)]
                if wrong:
                    ctx.viol('reader-finding:%s:on-%s:filed-under-another-segment' % (what, p.sid), 'a reader finding about an envelope segment is filed under a body segment', case,
                             {'segment': p.sid, 'position': pos, 'filed_under': [e[:12] for e in wrong[:3]]})
            else:
                if not any(e[4] == p.sid and e[5] == pos for e in mine):
                    ctx.viol('reader-finding:%s:not-at-its-segment' % what, 'a reader finding is not reported at the segment it is about', case,
                             {'segment': p.sid, 'position': pos, 'found': [e[:12] for e in mine[:4]]})
        if p.sid == 'SE':
            in_set = False


def check_envelope_attribution(ctx, text, res, case):
    """(5) every envelope discrepancy the independent recount finds (duplicate control number, trailer id/count mismatch) is in the tree
    on the interchange / group / set it belongs to, and that set is not acknowledged as accepted"""
    from vlib import ref_envelope as RE
    terms, pieces = ref_token.tokenize(text)
    segs = []
    owner = []
    ii = gi = si = -1
    for p in pieces:
        if p.blank_only:
            continue
        if p.sid == 'ISA':
            ii += 1
            gi = si = -1
        elif p.sid == 'GS':
            gi += 1
            si = -1
        elif p.sid == 'ST':
            si += 1
        segs.append((p.sid, [(c[0] if len(c) == 1 else terms[2].join(c)) for c in p.elements]))
        owner.append((ii, gi, si))
    rc = RE.recount(segs, check_lx=False)
    if not rc.proper:
        return
    errs = res.errors or []
    a = ref_ack.Ack(res.ack) if res.ack else None
    for (idx, level, code) in rc.must:
        if idx == 'eof' or level == 'seg':
            continue
        ctx.count('envelope-discrepancies-checked')
        o = owner[idx]
        want = {'isa': (o[0], None, None), 'gs': (o[0], o[1], None), 'st': o}[level]
        hit = [e for e in errs if e[0] == level and e[9] == code and (e[1], e[2], e[3]) == want]
        if not hit:
            elsewhere = [e for e in errs if e[0] == level and e[9] == code]
            ctx.viol('envelope-attribution:%s/%s:%s' % (level, code, 'booked-on-another-loop' if elsewhere else 'missing-from-tree'),
                     'an envelope discrepancy found by the independent recount is not in the tree on the loop it belongs to', case,
                     {'segment_index': idx, 'segment': segs[idx], 'belongs_to': want, 'same_code_elsewhere': [e[:12] for e in elsewhere[:3]]})


def check_verdict(ctx, res, case):
    reported_tree = bool(res.errors)
    logged = res.error_logs()
    if res.verdict is True and (reported_tree or logged):
        kind = 'tree-errors' if reported_tree else 'logged-error'
        if not reported_tree and all(r[2].startswith('No current segment in error_handler') for r in logged):
            kind = 'logged-error:segment-error-dropped-on-envelope-segment'
        ctx.viol('verdict:true-with-%s' % kind, 'verdict True although an error was reported', case,
                 {'errors': [e[:12] for e in (res.errors or [])[:5]], 'logs': logged[:4]})
    if res.verdict is False and not reported_tree and not logged:
        ctx.viol('verdict:false-with-nothing-reported', 'verdict False although no error was reported at any level', case, {})
    if res.error_count is not None and (res.error_count > 0) != reported_tree:
        ctx.viol('verdict:error-count', 'get_error_count() disagrees with the walked tree', case, {'count': res.error_count, 'walked': len(res.errors or [])})


def judge(ctx, text, case, full, sigs, mapname='?'):
    res = pipeline.validate(text, charset=case.get('charset', 'E'))
    if res.exc is not None:
        ctx.count('not-completed:%s' % type(res.exc).__name__)     # totality is C07's business; the property is about runs that complete
        return
    check_verdict(ctx, res, case)
    ctx.count('docs:with-errors' if res.errors else 'docs:valid')
    if full:
        check_ack(ctx, text, res, case)
        check_reader_attribution(ctx, text, res, case)
        check_envelope_attribution(ctx, text, res, case)
    # element-level findings that hang on a loop's own node (set / group / interchange) are about its header or trailer; one whose message names
    # an element of a body segment was filed there for want of a segment node and will never be itemised as AK3/AK4
    import re as _re
    allowed = {'st': ('ST', 'SE'), 'gs': ('GS', 'GE'), 'isa': ('ISA', 'IEA', 'TA1')}
    for er in (res.errors or []):
        if er[0] == 'ele' and er[12] in allowed:
            m_ = _re.search(r'\(([A-Z][A-Z0-9]{1,2})(\d\d)(-\d+)?\)', er[13] or '')
            ctx.count('loop-node-element-findings-checked')
            if m_ and m_.group(1) not in allowed[er[12]]:
                ctx.viol('element-finding:filed-on-the-%s-node:names-a-body-segment' % er[12], 'an element-level finding about a body segment hangs on the node of the enclosing set / group / interchange', case,
                         {'message': (er[13] or '')[:160], 'node': er[12]})
                break
    for (seg_id, ep, sp, v) in case.get('expect_items', ()):
        # ground truth of a directed family: this too-long value was put at this element / component, so the tree and the acknowledgement
        # must both hold an element-level finding echoing it AT that position (the tree agreeing with the acknowledgement is not enough)
        if any(e[0] == 'seg' and e[4] == seg_id and e[9] not in ('HL1', 'HL2', 'LX', '8', 'SEG1') for e in (res.errors or [])):
            ctx.count('injected-positions:skipped-segment-has-segment-level-findings')      # (not located in the map: its elements are not validated at all)
            continue
        ctx.count('injected-positions-checked')
        in_tree = [e for e in (res.errors or []) if e[0] == 'ele' and e[4] == seg_id and e[10] == v]
        if not any(e[7] == ep and (e[8] or None) == (sp or None) for e in in_tree):
            ctx.viol('injected-finding:not-at-its-element-position:tree', 'a wrong value is not reported at the element / component position where it was put', case,
                     {'segment': seg_id, 'expected_position': [ep, sp], 'value': v, 'reported_at': [[e[7], e[8], e[9]] for e in in_tree][:4]})
        elif res.ack and full:
            a = ref_ack.Ack(res.ack)
            want = '%d' % ep + (':%d' % sp if sp else '')
            hits = [e for g in a.groups for s in g['sets'] for (sid, e) in s['items'] if sid in ('AK4', 'IK4') and len(e) >= 4 and e[3] == v]
            # ... and under an AK3/IK3 that names the segment (an AK4 right after AK2, or under the previous segment's AK3, is not itemised)
            owner = None
            under = []
            for g in a.groups:
                for s_ in g['sets']:
                    owner = None
                    for (sid, e) in s_['items']:
                        if sid in ('AK3', 'IK3'):
                            owner = e[0] if e else None
                        elif sid in ('AK4', 'IK4') and len(e) >= 4 and e[3] == v:
                            under.append(owner)
            if full and under and seg_id not in under:
                ctx.viol('injected-finding:ak4-not-under-an-ak3-for-its-segment', 'the acknowledgement echoes a wrong value in an AK4/IK4 that does not stand under an AK3/IK3 naming its segment', case,
                         {'segment': seg_id, 'value': v, 'ak3_above': under[:4]})
            elif full and not hits and any(e[9] in ('1', '2', '3', '4', '5', '6', '7', '8', '9', '10') for e in in_tree):
                ctx.viol('injected-finding:not-itemised', 'a wrong value reported in the tree with a standard code is not echoed in any AK4/IK4', case, {'segment': seg_id, 'value': v})
            if hits and not any(e[0].rstrip(':') == want or e[0] == want for e in hits):
                ctx.viol('injected-finding:not-at-its-element-position:ack', 'the acknowledgement echoes a wrong value under another element position than the one it was put at', case,
                         {'segment': seg_id, 'expected_position': want, 'value': v, 'ak4': hits[:4]})
    if res.errors:
        codes = sorted('%s%s' % (e[0][0], e[9]) for e in res.errors)
        shape = [(len(i['groups']), [len(x['sets']) for x in i['groups']]) for i in input_structure(text)] if text[:3] == 'ISA' else None
        sigs.add('%08x' % zlib.crc32(repr((mapname, codes, shape)).encode()))


def perturb_envelope(rng, doc):
    d = faults.clone(doc)
    # re-used control numbers (within their scope)
    last = {}
    for r in d.recs:
        k = {'ST': 1, 'GS': 5, 'ISA': 12}.get(r.node.id)
        if k is None:
            continue
        if r.node.id in last and rng.random() < 0.3:
            old = r.vals[k]
            r.vals[k] = last[r.node.id]
            # keep the trailer consistent with its (now duplicate) header
            depth = 0
            for q in d.recs[d.recs.index(r) + 1:]:
                if q.node.id == {'ST': 'SE', 'GS': 'GE', 'ISA': 'IEA'}[r.node.id] and q.vals[1] == old:
                    q.vals[1] = r.vals[k]
                    break
        last[r.node.id] = r.vals[k]
    sts = [r for r in d.recs if r.node.id == 'ST']
    if sts and rng.random() < 0.35:
        # a finding on an element of the set header that has no set-level code of its own (only ST01 and ST02 have): the implementation
        # reference wrong / padded / too long (5010), or one element too many (4010, whose ST has two)
        r = rng.choice(sts)
        if len(r.vals) >= 3 and r.vals[2]:
            r.vals[2] = rng.choice(['005010X999', r.vals[2] + '  ', r.vals[2] + 'Q' * 30, 'X'])
        else:
            r.vals = list(r.vals[:2]) + ['X']
        d.meta['st_header_element'] = d.meta.get('st_header_element', 0) + 1
    for r in d.recs:
        if r.node.id in ('SE', 'GE', 'IEA') and rng.random() < 0.35:
            k = rng.choice(['count+1', 'count0', 'id'])
            if k == 'count+1':
                r.vals[0] = str(int(r.vals[0]) + 1)
            elif k == 'count0':
                r.vals[0] = '0'
            else:
                r.vals[1] = '9' * len(r.vals[1])
    return d


def several_findings_on_one_element(rng, doc):
    """a composite that is wrong as a whole (one component too many) AND in one of its components (too long / not in the code list):
    two error nodes at the same element position, one with and one without a component index"""
    d = faults.clone(doc)
    sites = [x for x in faults.element_sites(d, None) if x[3] is not None and faults._present(x[4]) and x[1].usage != 'N' and faults._plain_site(x[0], x[1], x[2], x[3], x[4], d)]
    if not sites:
        return None
    i, node, ep, sp, cur = rng.choice(sites)
    comp = d.recs[i].node.children[ep - 1]
    dt, mn, mx = gen_doc.dtype_of(node)
    faults.set_value(d.recs[i], ep, sp, 'Q' * (mx + 1))
    v = d.recs[i].vals[ep - 1]
    v = list(v) if isinstance(v, list) else [v]
    while len(v) < len(comp.children):
        v.append('')
    v += ['X'] * rng.choice([1, 2])
    d.recs[i].vals[ep - 1] = v
    return d


def same_data_element_twice(rng, doc):
    """two elements of ONE segment that share a data element number (PER03/PER05, CLM06/CLM08, HI01-1/HI02-1 ...) both wrong: two findings that
    only the position tells apart"""
    d = faults.clone(doc)
    by = {}
    for x in faults.element_sites(d, None):
        i, node, ep, sp, cur = x
        if faults._present(cur) and node.usage != 'N' and faults._plain_site(i, node, ep, sp, cur, d):
            by.setdefault((i, node.data_ele), []).append(x)
    groups = [v for v in by.values() if len(v) >= 2]
    if not groups:
        return None
    g2 = rng.choice(groups)
    items = []
    for n_, (i, node, ep, sp, cur) in enumerate(rng.sample(g2, 2)):
        dt, mn, mx = gen_doc.dtype_of(node)
        v = ('Q' if dt in ('AN', 'ID') else '7') * (mx + 1 + n_)        # two different values, both too long
        faults.set_value(d.recs[i], ep, sp, v)
        items.append((d.recs[i].node.id, ep, sp, v))
    d.meta = dict(d.meta, expect_items=items)
    return d


def numbering_and_element(rng, doc):
    """one HL (or 837 LX) that is wrong twice: its sequence number (a finding of the reader that has no acknowledgement code of its own) and one
    of its elements (a finding that has): the element finding must still be itemised under an AK3/IK3 for that segment"""
    d = faults.clone(doc)
    hls = [i for i, r in enumerate(d.recs) if r.node.id == 'HL' and len(r.vals) >= 4 and str(r.vals[0]).isdigit()]
    if not hls:
        return None
    i = rng.choice(hls)
    r = d.recs[i]
    r.vals[0] = str(int(r.vals[0]) + rng.choice([3, 7]))
    r.vals[3] = rng.choice(['7', 'X', '22'])          # HL04 is a yes/no code (0 / 1)
    d.meta = dict(d.meta, expect_items=[('HL', 4, None, r.vals[3])])
    return d


def run(ctx):
    sigs = set()
    n = 0
    fx = corpus.fixtures()
    for name in sorted(fx):
        if ctx.mine(('fx', name)):
            text = fx[name]
            ok_delims = (text[105], text[3], text[104]) == ('~', '*', ':')
            judge(ctx, text, {'fixture': name, 'text': text[:4000], 'charset': 'E'}, True, sigs, name)
            ctx.count('docs:A')
            n += 1
    entries = [e for e in gen_doc.index_entries() if e['file'] != '841.4010.XXXC.xml']
    per = (1100 if ctx.quick else 30000) // ctx.nshards
    for k in range(per):
        rng = ctx.sub_rng('c05', ctx.shard, k)
        e = entries[(k + ctx.shard) % len(entries)]
        kw = dict(n_st=rng.choice([1, 2, 3]), n_gs=rng.choice([1, 1, 2]), n_isa=rng.choice([1, 1, 1, 2]), charset=rng.choice(['B', 'E']), rich=rng.random() < 0.3,
                  fill=rng.choice([0.2, 0.5]), opt_prob=rng.choice([0.3, 0.6]), maxrep=rng.choice([1, 2]))
        seed = rng.randrange(1 << 30)
        try:
            doc = gen_doc.gen_document(e, seed, **kw)
        except gen_doc.GenFailed:
            ctx.count('genfailed')
            continue
        if len(doc.recs) > 400:
            ctx.count('skipped-large')
            continue
        nf = rng.choice([0, 1, 1, 2, 3, 5])
        kinds = []
        for _ in range(nf):
            f = faults.inject(rng, doc)
            if f is not None:
                doc = f.doc
                kinds.append(f.kind)
        if rng.random() < 0.15:
            d2 = several_findings_on_one_element(rng, doc)
            if d2 is not None:
                doc = d2
                kinds.append('composite-and-component-of-it')
                ctx.count('docs:composite-and-one-of-its-components-wrong')
        if rng.random() < 0.15:
            d2 = same_data_element_twice(rng, doc)
            if d2 is not None:
                doc = d2
                kinds.append('same-data-element-twice-in-one-segment')
                ctx.count('docs:two-elements-of-one-data-element-wrong-in-one-segment')
        if rng.random() < 0.12:
            d2 = numbering_and_element(rng, doc)
            if d2 is not None:
                doc = d2
                kinds.append('same-data-element:hl-number-and-element')
                ctx.count('docs:hl-with-wrong-number-and-wrong-element')
        if rng.random() < 0.3:
            doc = perturb_envelope(rng, doc)
            kinds.append('envelope')
            if doc.meta.get('st_header_element'):
                ctx.count('docs:set-header-element-finding')
        text = doc.text()
        case = {'map': e['file'], 'gen': {'entry': e, 'seed': seed, 'kw': kw}, 'faults': kinds, 'charset': doc.charset, 'text': text if len(text) < 150000 else None, 'k': ['c05', ctx.shard, k]}
        if doc.meta.get('expect_items') and len(text) < 100 * 1000 and all(x in faults.ELE_KINDS or x.startswith(('same-data-element', 'composite-and')) for x in kinds):
            # (only when nothing else in the document can change how segments are located in the map)
            case['expect_items'] = [list(x) for x in doc.meta['expect_items']]
        if rng.random() < 0.25:
            lines = text.split('~\n')
            for _ in range(rng.randint(1, 2)):
                j = rng.randrange(2, max(3, len(lines) - 3))
                if rng.random() < 0.3:
                    cand = [q for q, l in enumerate(lines) if l.startswith('SE*')]
                    j = rng.choice(cand) if cand else j
                if lines[j] and not lines[j].startswith(('ISA', 'GS', 'GE', 'IEA')):
                    lines[j] = (lines[j] + '*') if rng.random() < 0.7 else (' ' + lines[j])
            text = '~\n'.join(lines)
            case.pop('expect_items', None)
            kinds.append('reader-level')
            case['faults'] = kinds
            case['text'] = text if len(text) < 150000 else None
        if rng.random() < 0.06:
            text = mutate.envelope_soup(rng, e['icvn'])
            case = {'map': e['file'], 'envelope_soup': True, 'charset': doc.charset, 'text': text, 'k': ['c05', ctx.shard, k]}
            ctx.count('docs:envelope-soup')
            judge(ctx, text, case, False, sigs, e['file'])
            ctx.count('docs:B')
        elif rng.random() < 0.18:
            text, names = mutate.mutate(rng, text)
            case.pop('expect_items', None)
            case['mutations'] = names
            case['text'] = text if len(text) < 150000 else None
            judge(ctx, text, case, False, sigs, e['file'])
            ctx.count('docs:B')
        else:
            judge(ctx, text, case, True, sigs, e['file'])
            ctx.count('docs:A')
        n += 1
        ctx.sample({'map': e['file'], 'faults': kinds, 'text_head': text[:500]})
    # directed: otherwise clean documents with ONE thing wrong that is found only after a set's trailer has been seen - a stray segment between SE and the
    # next ST / the GE, or an SE whose count is written '+n' (an element finding on the trailer itself): verdict, set / group status and totals
    # must all know about it
    nd = (60 if ctx.quick else 1500) // ctx.nshards + 1
    for t in range(nd):
        rng = ctx.sub_rng('c05late', ctx.shard, t)
        e = entries[(t * 5 + ctx.shard) % len(entries)]
        try:
            doc = gen_doc.gen_document(e, rng.randrange(1 << 30), n_st=2, n_gs=rng.choice([1, 2]), n_isa=1, charset='E', rich=False, fill=0.3, opt_prob=0.4, maxrep=1)
        except gen_doc.GenFailed:
            continue
        if len(doc.recs) > 300:
            continue
        lines = doc.text().split('~\n')
        ses = [i for i, l in enumerate(lines) if l.startswith('SE*')]
        if not ses:
            continue
        j = rng.choice(ses)
        if rng.random() < 0.6:
            lines.insert(j + 1, rng.choice(['REF*XX*1', 'ZZZ*1', 'NM1*85*2*X']))
            kind = 'stray-segment-after-SE'
        else:
            p_ = lines[j].split('*')
            p_[1] = '+' + p_[1]
            lines[j] = '*'.join(p_)
            kind = 'SE01-with-plus-sign'
        text = '~\n'.join(lines)
        ctx.count('docs:finding-booked-after-the-trailer')
        judge(ctx, text, {'map': e['file'], 'faults': ['directed:' + kind], 'charset': 'E', 'text': text if len(text) < 150000 else None, 'k': ['c05late', ctx.shard, t]}, False, sigs, e['file'])
        ctx.count('docs:B')
        n += 1
    ctx.case(n=n, sigs=sorted(sigs))


def replay(ctx, case):
    text = case.get('text')
    if text is None:
        raise RuntimeError('case text not stored (document longer than 8000 characters); re-run with the same VERIF_SEED')
    judge(ctx, text, case, 'mutations' not in case, set(), case.get('map', '?'))
