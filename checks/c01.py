"""C01 - tokenisation is lossless and independent of read chunking and source kind."""
import io
import os
import zlib

from vlib import ref_token, reencode
from vlib.streams import ChunkStream, LoggedStringIO
from vlib.worker import exc_key

PROPERTY = 'C01'
LEVEL = 'exploration'
RULE = ('Texts = the suite\'s fixture documents re-encoded with random admissible delimiter triples and line-break styles, plus generated segment soups '
        '(random ids, 0-12 elements, composites, values with blanks and embedded line breaks, leading blanks, trailing separators, empty segments, '
        'filler segments sized so that terminators land on offsets {8190,8191,0,1,2} of the 8 KiB read buffer, segments longer than one and two buffers). '
        'Each text is read through StringIO, fixed chunk sizes {1,7,105,106,107,4096,8191,8192,8193}, random short reads, an open file and a path. '
        'Oracles: (1) segments/elements/components equal the reference tokenizer character for character, leading-blank and trailing-separator errors '
        'exactly when expected; (2) format()+re-read gives the same normal forms and the formatted text equals the reference normalisation; '
        '(3) all sources give the identical stream. non-trivial = distinct (text, source) pairs in which a segment straddles a read boundary '
        '(measured from the read log).')
ASSUMPTIONS = ['io.TextIOBase.read(n) may return fewer than n characters; only an empty result means end of input',
               'a blank-only segment is a don\'t-care for content (may be skipped or yielded empty) but must not raise; text after the last terminator is not a segment',
               'a segment with no non-empty element is compared in normal form only (format() writes "SE*~" for "SE~")',
               'path sources are restricted to ASCII text (the reader opens files as ASCII by design)']
REQUIRED_COUNTERS = ['texts', 'reads', 'segments-compared', 'straddling-segments', 'sources:path', 'sources:file', 'sources:short-reads', 'sources:resumed', 'roundtrips',
                     'expected:leading-blank', 'expected:trailing-sep', 'texts:long-segment', 'texts:empty-segment', 'texts:text-after-last-terminator', 'texts:short-later-isa', 'texts:blank-before-later-isa', 'texts:element-text-shared-across-texts']
MIN_CASES = {'quick': 1300, 'thorough': 30000}

CHUNKS = [1, 7, 105, 106, 107, 4096, 8191, 8192, 8193]
IDS = ['NM1', 'N3', 'REF', 'HL', 'CLM', 'SV1', 'DTP', 'K3', 'B2A', 'LX', 'AK4', 'ZZ', 'X12']
SHARED = ['A:B>C/D&E|F.G-H', '08:00>17:00', '1(2)3+4,5;6=7?8!9', 'X\\Y<Z>W~V@U', 'K[L]M_N{O}P#Q$R%S']
ALPHA = 'ABCDEFGHIJKLMNOPQRSTUVWXYZ0123456789 abcxyz.-/()&\'"<>#@'


def isa_text(terms, icvn='00401', rng=None):
    seg_t, ele_t, sub_t = terms
    f2, f6, f8 = ' ' * 10, 'SENDER'.ljust(15), 'RECEIVER'.ljust(15)
    if rng is not None and rng.random() < 0.35 and sub_t not in '\r\n':
        # the component separator is ordinary data inside the ISA (it is never split there), also as last character of a field
        k = rng.choice([0, 1, 2])
        if k == 0:
            f6 = ('SEND' + sub_t + 'ER').ljust(15)
        elif k == 1:
            f8 = 'RECEIVER'.ljust(14) + sub_t
        else:
            f2 = (sub_t + 'PW' + sub_t).ljust(10)
    els = ['00', f2, '00', ' ' * 10, 'ZZ', f6, 'ZZ', f8, '040608', '1333',
           'U' if icvn == '00401' else [c for c in '^}{\\' if c not in terms][0], icvn, '000000001', '0', 'P', sub_t]
    return ele_t.join(['ISA'] + els) + seg_t


def soup(rng, quick):
    terms = (rng.choice(reencode.SEG_CANDS), None, None)
    seg_t = terms[0]
    ele_t = rng.choice([c for c in reencode.ELE_CANDS if c != seg_t])
    sub_t = rng.choice([c for c in reencode.SUB_E if c not in (seg_t, ele_t)])
    terms = (seg_t, ele_t, sub_t)
    alpha = ''.join(c for c in ALPHA if c not in terms)
    eol = rng.choice(reencode.EOLS) if seg_t not in '\r\n' else rng.choice(['', '\n' if seg_t == '\r' else '\r'])
    out = [isa_text(terms, rng.choice(['00401', '00501']), rng), eol if eol != 'mixed' else rng.choice(['', '\n', '\r\n', '\r'])]
    feats = set()
    nseg = rng.randint(3, 40)
    target = rng.choice([None, None, 8190, 8191, 0, 1, 2])
    bufno = rng.choice([1, 1, 2, 3])

    def value():
        n = rng.choice([0, 1, 1, 2, 3, 5, 8, 12, 30])
        v = ''.join(rng.choice(alpha) for _ in range(n))
        if n > 0 and rng.random() < 0.04 and seg_t not in '\r\n':
            k = rng.randint(1, len(v))
            v = v[:k] + rng.choice(['\n', '\r', '\r\n']) + v[k:]
            feats.add('eol-in-value')
        return v

    def segment(sid=None):
        sid = sid or rng.choice(IDS)
        els = []
        for _ in range(rng.choice([0, 1, 2, 3, 4, 6, 12])):
            if rng.random() < 0.2:
                els.append(sub_t.join(value() for _ in range(rng.randint(2, 4))))
            else:
                els.append(value())
        if rng.random() < 0.08:
            # the same element text in many texts of one process, read under different component separators: how it splits depends on the
            # separator of THIS text alone
            v = rng.choice(SHARED)
            if not any(c in v for c in (seg_t, ele_t, '\r', '\n')):
                els.insert(rng.randint(0, len(els)), v)
                feats.add('element-text-shared-across-texts')
        s = ele_t.join([sid] + els)
        if els and rng.random() < 0.08:
            s += ele_t
            feats.add('trailing-sep')
        return s

    short_isa_at = rng.randrange(2, nseg) if (rng.random() < 0.12 and eol != 'mixed') else None
    for k in range(nseg):
        if k == short_isa_at:
            # a later interchange header written without padding (16 elements, far fewer than 106 characters), followed by a segment whose terminator
            # lies exactly 105 characters after the header's first character: headers after the first are ordinary delimited segments
            isa2 = ele_t.join(['ISA', '00', '', '00', '', 'ZZ', 'S', 'ZZ', 'R', '040608', '1333', 'U', '00401', '000000002', '0', 'P', sub_t])
            fill_n = 105 - len(isa2) - 1 - len(eol) - len('K3' + ele_t)
            if fill_n > 0:
                if rng.random() < 0.5:
                    # an indented later header: the blanks go, the header stays a header (its component-separator field is data, not a composite)
                    out.append(' ' * rng.randint(1, 3))
                    feats.add('blank-before-later-isa')
                out.append(isa2)
                out.append(seg_t)
                out.append(eol)
                out.append('K3' + ele_t + ''.join(rng.choice(alpha.replace(' ', 'Q')) for _ in range(fill_n)))
                out.append(seg_t)
                out.append(eol)
                feats.add('short-later-isa')
        r = rng.random()
        pre = ''
        if r < 0.05:
            pre = ' ' * rng.randint(1, 3)
            feats.add('leading-blank')
            if rng.random() < 0.3:
                # blanks followed by something Python calls whitespace but X12 does not call a blank: a tab, FS/GS/RS/US
                # (possibly the element separator itself, so that the segment id is empty); only the blanks may be dropped
                pre += rng.choice([ele_t, '\t', ele_t + ele_t, '\x1f' if '\x1f' not in terms else ele_t, '\x0b'])
                feats.add('leading-blank-then-other-whitespace')
        elif r < 0.09:
            out.append(seg_t)          # empty segment
            out.append(eol if eol != 'mixed' else rng.choice(['', '\n', '\r\n', '\r']))
            feats.add('empty-segment')
        elif r < 0.10 and seg_t != ' ':
            out.append('  ' + seg_t)   # blank-only segment
            feats.add('blank-only')
        if target is not None and k == nseg // 2:
            # filler so that the terminator of this segment lands on (106 + 8192*bufno + target) relative to the text start
            cur = sum(len(x) for x in out)
            want_end = 106 + 8192 * bufno + (target if target < 4096 else target - 8192)
            fill = want_end - cur - len('K3' + ele_t)
            if fill > 0:
                out.append('K3' + ele_t + ''.join(rng.choice(alpha.replace(' ', 'Q')) for _ in range(fill)))
                out.append(seg_t)
                out.append(eol if eol != 'mixed' else rng.choice(['', '\n', '\r\n', '\r']))
                feats.add('boundary:%d' % target)
                if fill > 8192:
                    feats.add('long-segment')
                continue
        if rng.random() < (0.02 if quick else 0.04):
            n = rng.choice([8200, 9000, 16500, 20000])
            out.append('K3' + ele_t + 'L' * n + ele_t + 'TAIL')
            feats.add('long-segment')
        else:
            out.append(pre + segment())
        out.append(seg_t)
        out.append(eol if eol != 'mixed' else rng.choice(['', '\n', '\r\n', '\r']))
    if rng.random() < 0.15:
        # characters after the last terminator (end-of-file mark, padding, free text, the stump of a cut-off segment): not delimited, so not a segment
        tail = rng.choice(['\x1a', '   ', 'END OF FILE\n', 'SE' + ele_t + '12' + ele_t + '0001', ' ' + (eol if eol != 'mixed' else '\n'), 'IEA' + ele_t + '1', '\x00'])
        if seg_t not in tail:
            out.append(tail)
            feats.add('text-after-last-terminator')
    return ''.join(out), feats


def read_all(src_factory, want_log=False):
    """-> (stream, error) ; stream = list of (sid, elements, errors)"""
    import pyx12.x12file
    src = src_factory()
    r = pyx12.x12file.X12Reader(src)
    out = []
    for seg in r:
        errs = [(e[0], e[1]) for e in r.pop_errors()]
        els = [[e.get_value() for e in comp.elements] for comp in seg.elements]
        out.append((seg.get_seg_id(), els, errs, seg))
    return out, (r.seg_term, r.ele_term, r.subele_term)


def read_resumed(src_factory, rng):
    """the same reader consumed in several for-loops (peek at the ISA, stop after an IEA, go on later): every loop must pick up where the last one stopped"""
    import pyx12.x12file
    r = pyx12.x12file.X12Reader(src_factory())
    out = []
    more = True
    while more:
        more = False
        limit = rng.choice([1, 1, 2, 3, 7, 20])
        k = 0
        for seg in r:
            errs = [(e[0], e[1]) for e in r.pop_errors()]
            els = [[e.get_value() for e in comp.elements] for comp in seg.elements]
            out.append((seg.get_seg_id(), els, errs, seg))
            k += 1
            if k >= limit:
                more = True
                break
    return out, (r.seg_term, r.ele_term, r.subele_term)


def _empty_yield(s):
    """a blank-only piece yielded as a segment without id and without elements (a segment with an empty id but data is real)"""
    return s[0] in ('', None) and not any(any(x != '' for x in c) for c in s[1])


def compare_with_ref(ctx, text, stream, terms, case):
    ok = True
    rterms, pieces = ref_token.tokenize(text)
    if tuple(terms) != tuple(rterms):
        ctx.viol('token:delimiters', 'delimiters taken from the ISA header differ from offsets 105/3/104', case, {'got': terms, 'expected': rterms})
        return False
    i = 0
    pending_blank = 0       # leading-blank errors of skipped blank-only pieces surface with the next pop_errors()
    for p in pieces:
        if p.blank_only:
            if i < len(stream) and _empty_yield(stream[i]):
                i += 1      # yielded as an empty segment: allowed
            else:
                pending_blank += 1
            continue
        if p.leading_blank:
            ctx.count('expected:leading-blank')
        if p.trailing_sep:
            ctx.count('expected:trailing-sep')
        if i >= len(stream):
            seg_t = rterms[0]
            prev_empty = (seg_t + seg_t) in text or any((seg_t + e + seg_t) in text for e in ('\n', '\r\n', '\r', '\n\n'))
            why = 'long-segment' if len(p.raw) > 8000 else ('empty-segment' if prev_empty else 'other')
            ctx.viol('token:segments-lost:' + why, 'the reader stopped before the last delimited segment', case,
                     {'yielded': len(stream), 'expected_at_least': i + 1, 'next_expected': p.raw[:80], 'raw_len': len(p.raw)})
            return False
        sid, els, errs, seg = stream[i]
        i += 1
        ctx.count('segments-compared')
        if sid != p.sid or els != p.elements:
            what = 'id' if sid != p.sid else 'values'
            ctx.viol('token:%s%s' % (what, ':ISA' if p.sid == 'ISA' else ''), 'a yielded segment differs from the reference tokenisation', case,
                     {'index': i - 1, 'got': [sid, els], 'expected': [p.sid, p.elements]})
            return False
        n1 = sum(1 for e in errs if e == ('seg', '1'))
        exp1 = (1 if p.leading_blank else 0) + (0 if ref_token.seg_id_valid(p.sid) else 1)
        carried, pending_blank = pending_blank, 0
        if not (exp1 <= n1 <= exp1 + carried):
            ctx.viol('token:leading-blank-error', 'leading-blank / invalid-id error count differs', case, {'index': i - 1, 'errors': errs, 'expected_code1': exp1, 'raw': p.raw[:60]})
            ok = False
        nse = sum(1 for e in errs if e == ('seg', 'SEG1'))
        if nse != (1 if p.trailing_sep else 0):
            ctx.viol('token:trailing-separator-error', 'trailing-separator error reported wrongly', case, {'index': i - 1, 'errors': errs, 'expected': p.trailing_sep})
            ok = False
    if i != len(stream):
        ctx.viol('token:extra-segments', 'the reader yielded more segments than the text delimits', case, {'yielded': len(stream), 'expected': i})
        return False
    return ok


def roundtrip(ctx, text, stream, terms, case):
    seg_t, ele_t, sub_t = terms
    rterms, pieces = ref_token.tokenize(text)
    pieces = [p for p in pieces if not p.blank_only]
    real = [s for s in stream if not _empty_yield(s)]
    try:
        formatted = [s[3].format(seg_t, ele_t, sub_t) for s in real]
    except Exception as ex:
        ctx.viol('format:%s' % exc_key(ex), 'Segment.format raised', case, {'exc': repr(ex)})
        return
    ctx.count('roundtrips')
    want = [ref_token.format_normal(p.normal(), seg_t, ele_t, sub_t) for p in pieces]
    for k, (f, w, p) in enumerate(zip(formatted, want, pieces)):
        if f != w:
            if not any(c != [''] and any(x != '' for x in c) for c in p.elements):
                ctx.count('format:no-nonempty-element(dontcare)')
                continue
            ctx.viol('format:text', 'formatted segment differs from the documented normalisation of the input', case, {'index': k, 'got': f, 'expected': w})
            return
    text2 = ''.join(formatted)
    try:
        stream2, terms2 = read_all(lambda: io.StringIO(text2))
    except Exception as ex:
        ctx.viol('format:reread:%s' % exc_key(ex), 're-reading the formatted text raised', case, {'exc': repr(ex)})
        return
    n1 = [ref_token_normal(s) for s in real]
    n2 = [ref_token_normal(s) for s in stream2 if not _empty_yield(s)]
    if n1 != n2:
        ctx.viol('format:reread-differs', 'reading the formatted text again yields different segments', case, {'first_diff': next((a, b) for a, b in zip(n1 + [None], n2 + [None]) if a != b)})


def ref_token_normal(s):
    sid, els = s[0], [list(c) for c in s[1]]
    for c in els:
        while len(c) > 1 and c[-1] == '':
            c.pop()
    while els and els[-1] == ['']:
        els.pop()
    return (sid, els)


def straddles(log, text, seg_t):
    """number of segments whose characters span two read() results"""
    bounds = set(pos + got for (asked, got, pos) in log if got > 0)
    n = 0
    start = 0
    for i, ch in enumerate(text):
        if ch == seg_t:
            if any(start < b <= i for b in bounds):
                n += 1
            start = i + 1
    return n


def judge_text(ctx, text, meta, sigs):
    case = {'meta': meta, 'text_len': len(text), 'text_head': text[:300], 'text': text if len(text) < 3000 else None}
    ctx.count('texts')
    base_log = []
    try:
        base, terms = read_all(lambda: LoggedStringIO(text, base_log))
    except Exception as ex:
        ctx.viol('read:%s' % exc_key(ex), 'reading a text with a well-formed ISA header from a StringIO raised %s' % type(ex).__name__, case, {'exc': repr(ex), 'source': 'StringIO'})
        return
    ctx.count('reads')
    ok = compare_with_ref(ctx, text, base, terms, dict(case, source='StringIO'))
    if ok:
        roundtrip(ctx, text, base, terms, case)
    plain = [(s[0], s[1], s[2]) for s in base]
    seg_t = text[105]
    if straddles(base_log, text, seg_t):
        sigs.add('%s:StringIO' % meta_sig(meta))
    sources = [('chunk%d' % c, (lambda c=c: ChunkStream(text, chunk=c))) for c in (CHUNKS if not ctx.quick else ctx.rng.sample(CHUNKS, 4))]
    for j in range(2):
        sources.append(('short-reads', (lambda j=j: ChunkStream(text, rng=ctx.sub_rng('sr', repr(meta), j)))))
    ascii_ok = all(ord(c) < 128 for c in text)
    if ascii_ok:
        fn = os.path.join(ctx.scratch, 'c01-%d.x12' % ctx.shard)
        with open(fn, 'w', encoding='ascii', newline='') as fd:
            fd.write(text)
        sources.append(('path', lambda: fn))
        sources.append(('file', lambda: open(fn, 'r', encoding='ascii', newline='')))
    if ctx.rng.random() < 0.5:
        sources.append(('resumed', None))
    for name, fac in sources:
        log = []
        if name == 'resumed':
            ctx.count('sources:resumed')
            try:
                got, t2 = read_resumed(lambda: ChunkStream(text, chunk=ctx.rng.choice([64, 200, 8192])), ctx.sub_rng('resume', repr(meta)))
            except Exception as ex:
                ctx.viol('read:resumed:%s' % exc_key(ex), 'consuming one reader in several for-loops raised %s' % type(ex).__name__, dict(case, source=name), {'exc': repr(ex)})
                continue
            g = [(s[0], s[1], s[2]) for s in got]
            if g != plain:
                k = next((i for i, (a, b) in enumerate(zip(g + [None], plain + [None])) if a != b), None)
                ctx.viol('stream-differs:resumed', 'consuming one reader in several for-loops loses, repeats or changes segments', dict(case, source=name),
                         {'segments': len(g), 'segments_single_pass': len(plain), 'first_diff_index': k})
            continue

        def fac2(fac=fac, log=log):
            s = fac()
            if isinstance(s, ChunkStream):
                s.log = log
            return s
        kind = name if not name.startswith('chunk') else 'chunked'
        ctx.count('sources:' + kind)
        try:
            got, t2 = read_all(fac2)
        except Exception as ex:
            ctx.viol('read:%s:%s' % (kind, exc_key(ex)), 'reading the same text through source kind "%s" raised %s' % (kind, type(ex).__name__), dict(case, source=name), {'exc': repr(ex)})
            continue
        ctx.count('reads')
        g = [(s[0], s[1], s[2]) for s in got]
        if g != plain or tuple(t2) != tuple(terms):
            k = next((i for i, (a, b) in enumerate(zip(g + [None], plain + [None])) if a != b), None)
            ctx.viol('stream-differs:%s' % kind, 'the segment stream depends on how the source chunks its reads / on the source kind', dict(case, source=name),
                     {'segments': len(g), 'segments_stringio': len(plain), 'first_diff_index': k, 'got': g[k] if k is not None and k < len(g) else None,
                      'stringio': plain[k] if k is not None and k < len(plain) else None})
        elif log:
            n = straddles(log, text, seg_t)
            if n:
                ctx.count('straddling-segments', n)
                sigs.add('%s:%s' % (meta_sig(meta), name))


def meta_sig(meta):
    return '%08x' % zlib.crc32(repr(meta).encode())


def run(ctx):
    from pyx12.test.x12testdata import datafiles
    sigs = set()
    n = 0
    # fixtures re-encoded
    names = sorted(datafiles)
    reps = 2 if ctx.quick else 12
    for fi, name in enumerate(names):
        src = datafiles[name]['source']
        for rep in range(reps):
            if not ctx.mine((name, rep)):
                continue
            rng = ctx.sub_rng('fx', name, rep)
            try:
                if rep == 0:
                    text = src
                else:
                    st, et, sb, eol = reencode.pick_terms(rng, src, 'E')
                    text = reencode.reencode(src, st, et, sb, eol)
            except Exception:
                ctx.count('fixture-not-reencodable')
                continue
            judge_text(ctx, text, ['fixture', name, rep], sigs)
            n += 1
    nsoup = (1600 if ctx.quick else 40000) // ctx.nshards
    for k in range(nsoup):
        rng = ctx.sub_rng('soup', ctx.shard, k)
        text, feats = soup(rng, ctx.quick)
        for f in feats:
            ctx.count('texts:' + (f if not f.startswith('boundary') else 'boundary'))
            if f.startswith('boundary'):
                ctx.add('terminator_offsets_mod_8192', f)
        judge_text(ctx, text, ['soup', ctx.shard, k], sigs)
        n += 1
        ctx.sample({'soup_head': text[:400], 'features': sorted(feats), 'length': len(text)})
    ctx.case(n=n, sigs=sorted(sigs))


def replay(ctx, case):
    meta = case['meta']
    if meta[0] == 'soup':
        text, feats = soup(ctx.sub_rng('soup', meta[1], meta[2]), ctx.quick)
    else:
        from pyx12.test.x12testdata import datafiles
        src = datafiles[meta[1]]['source']
        if meta[2] == 0:
            text = src
        else:
            st, et, sb, eol = reencode.pick_terms(ctx.sub_rng('fx', meta[1], meta[2]), src, 'E')
            text = reencode.reencode(src, st, et, sb, eol)
    judge_text(ctx, text, meta, set())
