"""C11 - the writer always emits balanced envelopes with correct counts (writer vs model, then re-read)."""
import io
import zlib

from vlib import ref_envelope as RE
from vlib.worker import exc_key

PROPERTY = 'C11'
LEVEL = 'exploration'
RULE = ('Random well-nested write histories: 1-3 interchanges x 0-3 groups x 0-3 sets x 0-5 body segments (some with composites / trailing empty '
        'elements / no data at all); every loop is closed by its own trailer (right counts), by its own trailer with wrong/non-numeric/absent counts and ids, or left to '
        'an enclosing trailer / Close() (only where the property allows: the last child of its parent). Each history is replayed in full and for '
        'several prefixes followed by Close(), under random delimiter quadruples, eol in {"", LF, CRLF} and both ISA versions. Oracle 1: text equals '
        'the model (non-trailer segments in normal form with the writer\'s delimiters, ISA11/ISA16 replaced, every trailer regenerated from the header id '
        'and the true count). Oracle 2: the real X12Reader and the independent recount both find no envelope discrepancy in the output. '
        'non-trivial = distinct (history, cut) pairs with >=1 omitted or wrong trailer, or a cut inside an open loop.')
ASSUMPTIONS = ['a sibling header while a loop of the same level is still open is outside the property\'s domain and not generated',
               'data contains none of the writer\'s delimiters; about a tenth of the histories re-use a control number within its scope: counts and trailers must still be true, only the duplicate-id finding itself is then ignored on re-reading',
               'check_837_lx (LX renumbering) left at its default']
REQUIRED_COUNTERS = ['runs:blank-padded-interchange-control-number', 'runs:5010-source-with-letter-digit-or-blank-in-ISA11', 'runs:isa-field-holding-the-source-component-separator', 'runs:writer-used-again-after-Close', 'runs:control-number-with-foreign-delimiter', 'trailers:wrong:earlier-sibling-id', 'histories', 'runs', 'runs:cut', 'runs:control-number-reused', 'trailers:omitted', 'trailers:wrong', 'reader-rechecks', 'isa:00501', 'isa:00401']
MIN_CASES = {'quick': 4000, 'thorough': 1500000}

TERMS = [('~', '*', ':', '^', '\n'), ('!', '|', '>', '^', ''), ('\x1c', '\x1d', '<', '\x1f', '\r\n'), ('\n', '*', ':', '^', ''), ('~', '*', '\\', '^', '\n'),
         ('\'', '+', ':', '!', '\n'), ('$', '^', '&', '#', ''),
         # the writer's delimiters in the roles of OTHER delimiters of the text its segments were parsed from (~ * :)
         ('~', '|', '*', '^', '\n'), ('~', '*', '>', ':', '\n'), ('*', '|', '~', ':', '')]
BODY = ['BHT*0019*00*1', 'NM1*85*2*X', 'REF*87*1', 'HL*1**20*1', 'SV1*HC:99213*40*UN*1', 'SV1*HC:99213:25::*40', 'N3*1 MAIN ST**', 'DTP*472*D8*20040407',
        'CLM*A1*100***11:B:1*Y', 'LX*1', 'PER*IC*X*TE*5551212***', 'K3*A  B',
        'REF', 'REF**', 'N3*', 'SV1*::*', 'LS*2120', 'LE*2120', 'LE*2700', 'LS*2700',
        'HL*2*1*22*0', 'HL*3*7*23*0', 'HL*X*Y*20*1', 'HL*4**20', 'LX*7', 'CLM*A1*100', 'LX*1', 'LX*1']      # hierarchy / service-line numbers the reader has opinions about: still body segments, counted once          # segments without any data: written as '<id><sep><terminator>' and counted like any other


def gen(rng):
    """-> list of events: ('open', level, id, segstr) | ('body', segstr) | ('close', level, how, segstr_or_None)"""
    ev = []
    n_isa = rng.randint(1, 3)
    for i in range(n_isa):
        icvn = rng.choice(['00401', '00501'])
        isa_id = '%09d' % (i * 7 + rng.randint(1, 5))
        if rng.random() < 0.12:
            # a control number padded with blanks instead of zeros (fixed-width senders): the IEA carries it as the ISA does
            isa_id = str(int(isa_id)).rjust(9) if rng.random() < 0.5 else str(int(isa_id)).ljust(9)
        if i and rng.random() < 0.08:
            isa_id = [e[2] for e in ev if e[0] == 'open' and e[1] == 'ISA'][-1]       # control number used again: the counts must not care
        ev.append(('open', 'ISA', isa_id, icvn))
        last_isa = (i == n_isa - 1)
        isa_close = rng.choice(['own', 'own', 'wrong', 'omit']) if last_isa else rng.choice(['own', 'own', 'wrong'])
        ngroups = rng.randint(0, 3)
        for g in range(ngroups):
            gid = str(g * 10 + rng.randint(1, 9))
            if rng.random() < 0.05:
                gid = rng.choice(['1*%s', '7:%s', '~%s']) % gid
            if g and rng.random() < 0.1:
                gid = prev_gid
            prev_gid = gid
            ev.append(('open', 'GS', gid, 'GS*HC*A*B*20040608*1333*%s*X*004010X098A1' % gid))
            last_g = (g == ngroups - 1)
            ge_close = rng.choice(['own', 'own', 'wrong', 'omit']) if last_g else rng.choice(['own', 'own', 'wrong'])
            nsets = rng.randint(0, 3)
            for t in range(nsets):
                sid = '%04d' % (t * 10 + rng.randint(1, 9))
                if rng.random() < 0.1:
                    # an alphanumeric control number with punctuation that is a delimiter elsewhere but (for most writers below) not here
                    sid = rng.choice(['AB*%d', '12:%d', 'A~%d', '*%d', '1*2:%d', ':%d:']) % (t * 10 + rng.randint(1, 9))
                if t and rng.random() < 0.12:
                    sid = rng.choice(sids)
                sids = (sids if t else []) + [sid]
                ev.append(('open', 'ST', sid, 'ST*837*%s' % sid))
                for _ in range(rng.randint(0, 5)):
                    ev.append(('body', rng.choice(BODY)))
                last_t = (t == nsets - 1)
                se_close = rng.choice(['own', 'own', 'wrong', 'omit']) if last_t else rng.choice(['own', 'own', 'wrong'])
                ev.append(('close', 'ST', se_close, rng))
            ev.append(('close', 'GS', ge_close, rng))
        if not last_isa and rng.random() < 0.2:
            # the writer is used again after Close(): whatever was open (also GS / ST left open below, if their own closing was the last thing
            # omitted) is closed by that call, and the next interchange starts from scratch
            isa_close = rng.choice(['omit', 'omit', 'own'])
            ev.append(('close', 'ISA', isa_close, rng))
            ev.append(('Close', None, None, None))
            continue
        ev.append(('close', 'ISA', isa_close, rng))
        if isa_close == 'omit':
            break
    return ev


def norm_seg(segstr):
    """normal form of a source segment written with ~ * : -> (id, [elements as lists of components]) trailing empties trimmed"""
    parts = segstr.split('*')
    sid = parts[0]
    els = []
    for p in parts[1:]:
        comps = p.split(':')
        while len(comps) > 1 and comps[-1] == '':
            comps.pop()
        els.append(comps)
    while els and els[-1] == ['']:
        els.pop()
    return sid, els


def fmt(sid, els, st, et, sb):
    return sid + et + et.join(sb.join(c) for c in els) + st


def play(ctx, ev, cut, terms, meta):
    """Replays events[:cut] then Close(); builds the model text alongside; returns (got, want, info)"""
    import pyx12.x12file
    import pyx12.segment as S
    st, et, sb, rep, eol = terms
    fd = io.StringIO()
    w = pyx12.x12file.X12Writer(fd, st, et, sb, eol, rep)
    want = []
    stack = []          # (level, id, count)
    info = {'omitted': 0, 'wrong': 0}

    def close_model(level):
        while stack:
            lv, cid, cnt = stack.pop()
            tr = {'ST': 'SE', 'GS': 'GE', 'ISA': 'IEA'}[lv]
            c = cnt + 1 if lv == 'ST' else cnt
            want.append(fmt(tr, [[str(c)], [cid]], st, et, sb))
            if lv == level:
                return

    def eff(cid):
        # a control number may hold any character but this writer's own delimiters
        return ''.join('Q' if c in (st, et, sb) else c for c in cid)

    def source(parts):
        # the segment handed to the writer: parsed from the usual ~ * : text, or, when a value holds one of those, from text in the writer's own delimiters
        if any(c in p for p in parts for c in '~*:'):
            info['punctuated'] = info.get('punctuated', 0) + 1
            return S.Segment(et.join(parts), st, et, sb)
        return S.Segment('*'.join(parts), '~', '*', ':')

    prev_ids = {'ST': [], 'GS': [], 'ISA': []}
    for e in ev[:cut]:
        if e[0] == 'open':
            _, lv, cid, arg = e
            if lv != 'ISA' and any(c in cid for c in '~*:'):
                cid = eff(cid)
                parts = ['ST', '837', cid] if lv == 'ST' else ['GS', 'HC', 'A', 'B', '20040608', '1333', cid, 'X', '004010X098A1']
                w.Write(source(parts))
                want.append(fmt(parts[0], [[x] for x in parts[1:]], st, et, sb))
                stack[-1][2] += 1
                stack.append([lv, cid, 1 if lv == 'ST' else 0])
                continue
            if lv == 'GS':
                prev_ids['ST'] = []
            elif lv == 'ISA':
                prev_ids['GS'] = []
            if lv == 'ISA':
                snd = 'SENDER'
                if ':' not in (st, et, sb, rep) and zlib.crc32(repr((meta, cid, len(want))).encode()) % 3 == 0:
                    # the source's component separator inside an ISA field: ISA fields are never composites, and for this writer ':' is data
                    snd = ['SEND:ER', 'ZZ:000:1', 'ABCDEFGHIJKLMN:'][len(want) % 3]
                    info['isa_field_with_source_separator'] = 1
                # what the source ISA holds in ISA11 is of no concern to the writer: a 5010 ISA gets the writer's own repetition separator
                src11 = ['^', 'U', '9', '!', ' '][zlib.crc32(repr((meta, cid, 'r')).encode()) % 5] if arg == '00501' else None
                if src11 in ('U', '9', ' '):
                    info['src_isa11_alnum'] = 1
                els = RE.isa_elements(cid, arg, sub=':', sender=snd, rep=src11)
                segstr = 'ISA*' + '*'.join(els)
                w.Write(S.Segment(segstr, '~', '*', ':'))
                ctx.count('isa:' + arg)
                mels = list(els)
                if arg == '00501':
                    mels[10] = rep
                mels[15] = sb
                want.append('ISA' + et + et.join(mels) + st)
                stack.append(['ISA', cid, 0])
            else:
                w.Write(S.Segment(arg, '~', '*', ':'))
                sid, els = norm_seg(arg)
                want.append(fmt(sid, els, st, et, sb))
                stack[-1][2] += 1      # one more group in the interchange / set in the group
                stack.append([lv, cid, 1 if lv == 'ST' else 0])
        elif e[0] == 'Close':
            w.Close()
            close_model(None)
            info['closed_midway'] = info.get('closed_midway', 0) + 1
        elif e[0] == 'body':
            w.Write(S.Segment(e[1], '~', '*', ':'))
            sid, els = norm_seg(e[1])
            want.append(fmt(sid, els, st, et, sb))
            stack[-1][2] += 1
        else:
            _, lv, how, rng = e
            tr = {'ST': 'SE', 'GS': 'GE', 'ISA': 'IEA'}[lv]
            if how == 'omit':
                info['omitted'] += 1
                continue        # closed later by an enclosing trailer or Close()
            cid = [s for s in stack if s[0] == lv][-1][1]
            cnt = [s for s in stack if s[0] == lv][-1][2] + (1 if lv == 'ST' else 0)
            if how == 'own':
                seg = [tr, str(cnt), cid]
            else:
                info['wrong'] += 1
                r = zlib.crc32(repr((meta, len(want))).encode()) % 8
                # (6, 7): the right count with the control number of an EARLIER sibling of the same scope (sets cloned from a template that
                # all kept the first one's SE02): the trailer written must still carry its own header's number
                earlier = [x for x in prev_ids[lv] if x != cid]
                other = earlier[-1] if earlier else 'WRONG'
                if earlier and r >= 6:
                    info['wrong:earlier-sibling-id'] = info.get('wrong:earlier-sibling-id', 0) + 1
                seg = [[tr, '99', cid], [tr, 'X', cid], [tr, '', '9999'], [tr], [tr, str(cnt), 'WRONG'], [tr, '0'], [tr, str(cnt), other], [tr, str(cnt), other]][r]
            w.Write(source(seg))
            prev_ids[lv].append(cid)
            close_model(lv)
    open_at_close = len(stack)
    w.Close()
    close_model(None)
    got = fd.getvalue()
    wanted = eol.join(want) + (eol if want else '')
    info['open_at_close'] = open_at_close
    return got, wanted, info


def tokenize(text, st, et, eol):
    segs = []
    for line in text.split(st):
        line = line.lstrip('\r\n')
        if line == '':
            continue
        parts = line.split(et)
        segs.append((parts[0], parts[1:]))
    return segs


def reader_envelope_errors(text):
    import pyx12.x12file
    errs = []
    r = pyx12.x12file.X12Reader(io.StringIO(text))
    for s in r:
        errs += [(e[0], e[1]) for e in r.pop_errors()]
    r.cleanup()
    errs += [(e[0], e[1]) for e in r.pop_errors()]
    return [e for e in errs if RE.is_envelope_error(e[0], e[1]) and e[1] not in ('HL1', 'HL2', 'LX')]


def _reused(ev):
    """does the history use a control number twice within its scope?"""
    isa, gs, st = set(), set(), set()
    for e in ev:
        if e[0] != 'open':
            continue
        if e[1] == 'ISA':
            if e[2] in isa:
                return True
            isa.add(e[2])
            gs = set()
        elif e[1] == 'GS':
            if e[2] in gs:
                return True
            gs.add(e[2])
            st = set()
        elif e[1] == 'ST':
            if e[2] in st:
                return True
            st.add(e[2])
    return False


def one(ctx, ev, cut, terms, meta):
    case = {'meta': meta, 'cut': cut, 'terms': list(terms), 'events': [(e[0], e[1], e[2] if e[0] != 'body' else None) if e[0] != 'body' else e for e in ev[:cut]]}
    ctx.count('runs')
    if cut < len(ev):
        ctx.count('runs:cut')
    try:
        got, want, info = play(ctx, ev, cut, terms, meta)
    except Exception as ex:
        ctx.viol('writer:%s' % exc_key(ex), 'X12Writer raised %s on a well-nested history' % type(ex).__name__, case, {'exc': repr(ex)})
        return None
    ctx.count('trailers:omitted', info['omitted'])
    ctx.count('trailers:wrong', info['wrong'])
    if any(e_[0] == 'open' and e_[1] == 'ISA' and e_[2] != e_[2].strip() for e_ in ev[:cut]):
        ctx.count('runs:blank-padded-interchange-control-number')
    if info.get('src_isa11_alnum'):
        ctx.count('runs:5010-source-with-letter-digit-or-blank-in-ISA11')
    if info.get('isa_field_with_source_separator'):
        ctx.count('runs:isa-field-holding-the-source-component-separator')
    if info.get('closed_midway'):
        ctx.count('runs:writer-used-again-after-Close')
    if info.get('punctuated'):
        ctx.count('runs:control-number-with-foreign-delimiter')
    ctx.count('trailers:wrong:earlier-sibling-id', info.get('wrong:earlier-sibling-id', 0))
    st, et, sb, rep, eol = terms
    if got != want:
        gl = got.split(st)
        wl = want.split(st)
        key = 'writer:text:length'
        det = {'got_tail': got[-200:], 'want_tail': want[-200:]}
        for a, b in zip(gl, wl):
            if a != b:
                sid = b.lstrip('\r\n').split(et)[0]
                key = 'writer:text:%s' % (sid if sid in ('ISA', 'SE', 'GE', 'IEA') else 'body')
                det = {'got': a, 'want': b}
                break
        ctx.viol(key, 'text written differs from the model (non-trailer segments unchanged, trailers regenerated with header id and true count)', case, det)
        return None
    if got:
        ctx.count('reader-rechecks')
        try:
            errs = reader_envelope_errors(got)
        except Exception as ex:
            ctx.viol('writer:reread:%s' % exc_key(ex), 're-reading the written text raised', case, {'exc': repr(ex), 'text': got[:1500]})
            return None
        reused = _reused(ev[:cut])
        if reused:
            ctx.count('runs:control-number-reused')
            errs = [e for e in errs if e[1] not in ('23', '6', '025')]       # the duplicate itself is the caller's doing
        if errs:
            ctx.viol('writer:reread:envelope-error:%s' % ','.join(sorted(set('%s/%s' % e for e in errs))), 'the reader reports envelope errors in the written text', case,
                     {'errors': errs, 'text': got[:1500]})
        res = RE.recount(tokenize(got, st, et, eol))
        if not res.proper or [m for m in res.must if m[2] not in ('HL1', 'HL2', 'LX') and not (reused and m[2] in ('23', '6', '025'))]:
            ctx.viol('writer:recount', 'the independent recount finds an envelope discrepancy in the written text', case,
                     {'proper': res.proper, 'must': res.must, 'text': got[:1500]})
    nontrivial = info['omitted'] or info['wrong'] or info['open_at_close']
    return nontrivial


def run(ctx):
    nh = (6000 if ctx.quick else 900000) // ctx.nshards
    sigs = set()
    n = 0
    for k in range(nh):
        rng = ctx.sub_rng('c11', ctx.shard, k)
        ev = gen(rng)
        ctx.count('histories')
        terms = rng.choice(TERMS)
        cuts = [len(ev)] + [rng.randint(1, len(ev)) for _ in range(2 if ctx.quick else 4)]
        if len(ev) <= 12 and not ctx.quick:
            cuts = list(range(1, len(ev) + 1))
        for cut in sorted(set(cuts)):
            meta = ['c11', ctx.shard, k]
            nt = one(ctx, ev, cut, terms, meta)
            n += 1
            if nt:
                sigs.add('%d:%d:%d' % (ctx.shard, k, cut))
        if k == 2 or k == 0:
            got, want, info = play(ctx, ev, len(ev), terms, ['sample'])
            ctx.sample({'written': got[:700], 'info': info})
    ctx.case(n=n, nt_disjoint=len(sigs))


def replay(ctx, case):
    meta = case['meta']
    rng = ctx.sub_rng(*meta)
    # sub_rng mixes in ctx.seed, which the runner restores from the replay file
    ev = gen(rng)
    one(ctx, ev, case['cut'], tuple(case['terms']), meta)
