#!/bin/sh
# Offline bootstrap: contracts library next to the checkout (git-ignored), import smoke test.
set -e
HERE="$(cd "$(dirname "$0")" && pwd)"
PY="${VERIF_PY:-/venv/bin/python}"
if [ ! -d "$HERE/.deps/icontract" ]; then
  PIP_NO_INDEX=1 "$PY" -m pip install --quiet --no-index --find-links /opt/veriftools/wheels \
      --target "$HERE/.deps" icontract deal >/dev/null 2>&1 || \
  PIP_NO_INDEX=1 "$PY" -m pip install --no-index --find-links /opt/veriftools/wheels \
      --target "$HERE/.deps" icontract
fi
PYTHONDONTWRITEBYTECODE=1 PYTHONPATH="$HERE/.deps:/repo" "$PY" -c "import icontract, pyx12; print('setup ok: icontract', icontract.__version__)"
