#!/usr/bin/env python3
"""tools/seedreadme.py - regenerate seeded/README.md from seeded/*/meta.json"""
import glob, json, os
ROOT = os.path.dirname(os.path.dirname(os.path.abspath(__file__)))
metas = []
for d in sorted(glob.glob(os.path.join(ROOT, 'seeded', 'C*'))):
    m = json.load(open(os.path.join(d, 'meta.json')))
    m['_id'] = os.path.basename(d)
    metas.append(m)


def cell(s, n=None):
    s = (s or '').replace('|', '\\|').replace('\n', ' ')
    return s if n is None or len(s) <= n else s[:n]


first = [m for m in metas if not m.get('strengthened') and 'missed' not in (m.get('result') or '').split(';')[0]]
lines = ['# Independently written breaking changes', '',
         'Each directory holds a change to azoner/pyx12 written by a fresh sub-agent that was given only the text of one property',
         'and its own scratch worktree (nothing from /verif): `patch.diff`, the agent\'s demonstration `demo.py <checkout>` (exit 1 with the',
         'change, exit 0 without) and `meta.json` (what it breaks, what it needs to manifest, what I ran and what it showed).',
         'None of them is ever committed to /repo. To re-run: `tools/seedeval.py <id> [--checks C01,C12] [--tier thorough]` (scratch copy of',
         '/repo + patch, repository suite, demo both ways, then the checks with VERIF_REPO pointing at the copy); `tools/seedannotate.py <id>`',
         'also writes the outcome into `meta.json`, `tools/seedreadme.py` regenerates this file. Round 1 = `Cnn`, round 2 = `Cnnb` (the agent',
         'was told the round-1 idea for its property and asked for a different mechanism).', '',
         'All %d compile and pass the repository\'s 454 tests. %d were caught by the quick tier as first built; for the others the `strengthened`' % (len(metas), len(first)),
         'column says what was added until the quick tier catches them (or what the check answers instead).', '',
         '| id | change | needs | result | strengthened |', '|---|---|---|---|---|']
for m in metas:
    lines.append('| %s | %s | %s | %s | %s |' % (m['_id'], cell(m.get('summary')), cell(m.get('needs'), 300), cell((m.get('result') or '') + ((' - NOT CLAIMED: ' + m['assessment']) if m.get('assessment') else '')), cell(m.get('strengthened'))))
open(os.path.join(ROOT, 'seeded', 'README.md'), 'w').write('\n'.join(lines) + '\n')
print(len(metas), 'entries;', len(first), 'caught as first built')
