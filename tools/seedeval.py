#!/usr/bin/env python3
"""tools/seedeval.py <Cnn> [--from /tmp/wt-Cnn/SEEDED] [--checks C01,C12] [--tier quick]

Confirms a seeded breaking change and runs checks against it:
  1. copies SEEDED/{patch.diff,demo.py,meta.json} to /verif/seeded/<id>/ (first time)
  2. scratch copy of /repo's working tree + patch applied (git apply --check first)
  3. repository test suite on the scratch copy (must be 454 passed)
  4. demo on the scratch copy (must exit 1) and on /repo (must exit 0)
  5. the given checks with VERIF_REPO=<scratch copy> (evidence/replays go to /tmp, see vlib/runner.out_root)
Prints one JSON summary; the scratch copy is removed."""
import json, os, shutil, subprocess, sys, tempfile
ROOT = os.path.dirname(os.path.dirname(os.path.abspath(__file__)))


def main():
    a = sys.argv[1:]
    sid = a[0]
    src = None
    checks = [sid[:3]]
    tier = 'quick'
    if '--from' in a:
        src = a[a.index('--from') + 1]
    if '--checks' in a:
        checks = a[a.index('--checks') + 1].split(',')
    if '--tier' in a:
        tier = a[a.index('--tier') + 1]
    dest = os.path.join(ROOT, 'seeded', sid)
    if src and not os.path.isdir(dest):
        os.makedirs(dest)
        for f in ('patch.diff', 'demo.py', 'meta.json'):
            shutil.copy(os.path.join(src, f), os.path.join(dest, f))
    out = {'id': sid}
    d = tempfile.mkdtemp(prefix='pyx12-seed-')
    try:
        subprocess.run(['rsync', '-a', '--exclude', '.git', '--exclude', '__pycache__', '/repo/', d + '/'], check=True)
        p = subprocess.run(['patch', '-p1', '-s', '--dry-run', '-d', d, '-i', os.path.join(dest, 'patch.diff')], capture_output=True, text=True)
        out['patch_applies'] = (p.returncode == 0)
        if p.returncode != 0:
            out['patch_error'] = (p.stdout + p.stderr)[-400:]
            print(json.dumps(out, indent=1))
            return 2
        subprocess.run(['patch', '-p1', '-s', '-d', d, '-i', os.path.join(dest, 'patch.diff')], check=True)
        env = dict(os.environ, PYTHONDONTWRITEBYTECODE='1', PYTHONPATH=d, PYTHONWARNINGS='ignore')
        t = subprocess.run(['/venv/bin/python', '-m', 'pytest', '-q', '-p', 'no:cacheprovider', '-x'], cwd=d, env=env, capture_output=True, text=True)
        out['tests'] = t.stdout.strip().splitlines()[-1] if t.stdout.strip() else t.stderr[-200:]
        r1 = subprocess.run(['/venv/bin/python', os.path.join(dest, 'demo.py'), d], env=dict(os.environ, PYTHONDONTWRITEBYTECODE='1', PYTHONWARNINGS='ignore'), capture_output=True, text=True, timeout=600)
        r0 = subprocess.run(['/venv/bin/python', os.path.join(dest, 'demo.py'), '/repo'], env=dict(os.environ, PYTHONDONTWRITEBYTECODE='1', PYTHONWARNINGS='ignore'), capture_output=True, text=True, timeout=600)
        out['demo_with_change'] = r1.returncode
        out['demo_without_change'] = r0.returncode
        out['demo_output'] = (r1.stdout + r1.stderr)[-300:]
        res = {}
        for c in checks:
            q = subprocess.run(['./check', c, '--tier', tier], cwd=ROOT, env=dict(os.environ, VERIF_REPO=d), capture_output=True, text=True)
            keys = [l.strip()[len('new violation key='):].split(' occurrences')[0] for l in q.stdout.splitlines() if l.strip().startswith('new violation key=')]
            res[c] = {'exit': q.returncode, 'violation_keys': keys[:8], 'inconclusive': [l[:160] for l in q.stdout.splitlines() if l.startswith('INCONCLUSIVE')][:2]}
        out['checks'] = res
        out['tier'] = tier
    finally:
        shutil.rmtree(d, ignore_errors=True)
    print(json.dumps(out, indent=1))
    return 0


sys.exit(main())
