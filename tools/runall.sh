#!/bin/sh
# tools/runall.sh [tier]  - every check once, summary line each
cd "$(dirname "$0")/.."
TIER="${1:-quick}"
for c in C01 C02 C03 C04 C05 C06 C07 C08 C09 C10 C11 C12 C13 C14 C15 C16 C17 C18 C19 C20; do
  s=$(date +%s)
  out=$(./check $c --tier $TIER 2>&1); rc=$?
  e=$(date +%s)
  echo "$c rc=$rc $((e-s))s $(echo "$out" | grep -c '^KNOWN-FINDING') known | $(echo "$out" | grep -E '^(VIOLATION|INCONCLUSIVE)' | head -2 | tr '\n' ' ' | cut -c1-200)"
done
