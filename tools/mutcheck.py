#!/usr/bin/env python3
"""Self-validation helper: run checks against a scratch copy of the repo with one textual edit applied.

  tools/mutcheck.py <relative file> <old> <new> <Cnn> [<Cnn> ...] [--tier T]
  tools/mutcheck.py --patch file.diff <Cnn> ...

The scratch copy lives under /tmp and is removed afterwards; registered commands never use this.
"""
import os, shutil, subprocess, sys, tempfile

def main():
    args = sys.argv[1:]
    tier = 'quick'
    if '--tier' in args:
        i = args.index('--tier'); tier = args[i + 1]; del args[i:i + 2]
    d = tempfile.mkdtemp(prefix='pyx12-mut-')
    try:
        shutil.copytree('/repo/pyx12', os.path.join(d, 'pyx12'), ignore=shutil.ignore_patterns('__pycache__', '*.pyc'))
        if args[0] == '--patch':
            subprocess.run(['patch', '-p1', '-s', '-d', d, '-i', os.path.abspath(args[1])], check=True)
            checks = args[2:]
        else:
            fn, old, new = args[0], args[1], args[2]
            checks = args[3:]
            p = os.path.join(d, fn)
            s = open(p).read()
            if s.count(old) < 1:
                print('MUTATION TEXT NOT FOUND'); return 3
            s = s.replace(old, new, 1)
            open(p, 'w').write(s)
        env = dict(os.environ, VERIF_REPO=d)
        rc = 0
        for c in checks:
            p = subprocess.run(['./check', c, '--tier', tier], env=env, cwd=os.path.dirname(os.path.dirname(os.path.abspath(__file__))),
                               stdout=subprocess.PIPE, stderr=subprocess.STDOUT, text=True)
            lines = [l for l in p.stdout.splitlines() if l.startswith(('VIOLATION', 'INCONCLUSIVE', 'HELD', '  new violation'))]
            print('%s exit=%d' % (c, p.returncode)); print('\n'.join(lines[:12]))
            rc = max(rc, p.returncode)
        return rc
    finally:
        shutil.rmtree(d, ignore_errors=True)
        # replays written by a mutation run are not evidence of anything on the real tree
sys.exit(main())
