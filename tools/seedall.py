#!/usr/bin/env python3
"""tools/seedall.py [-j N] - re-run every stored seeded change against the checks named in its meta.json (quick tier) and
write seeded/STATUS.md. A regression test of the checks themselves: every row must say 'caught' (or the documented answer)."""
import glob, json, os, subprocess, sys
from concurrent.futures import ThreadPoolExecutor
ROOT = os.path.dirname(os.path.dirname(os.path.abspath(__file__)))
J = int(sys.argv[sys.argv.index('-j') + 1]) if '-j' in sys.argv else 4
import re
ONLY = re.compile(sys.argv[sys.argv.index('--only') + 1]) if '--only' in sys.argv else None      # e.g. --only 'C..[j-m]$' : a subset (STATUS.md is then not rewritten)


def one(d):
    sid = os.path.basename(d)
    m = json.load(open(os.path.join(d, 'meta.json')))
    checks = [x.split()[0] for x in (m.get('checks_run') or sid[:3]).split(',')]
    p = subprocess.run([sys.executable, os.path.join(ROOT, 'tools', 'seedeval.py'), sid, '--checks', ','.join(checks)], capture_output=True, text=True)
    try:
        out = json.loads(p.stdout[p.stdout.index('{'):])
    except Exception:
        return sid, None, p.stdout[-200:] + p.stderr[-200:]
    return sid, out, None


rows = []
with ThreadPoolExecutor(J) as ex:
    for sid, out, err in ex.map(one, [d for d in sorted(glob.glob(os.path.join(ROOT, 'seeded', 'C*'))) if ONLY is None or ONLY.search(os.path.basename(d))]):
        if out is None:
            rows.append((sid, 'ERROR', err))
            continue
        ok = out.get('patch_applies') and str(out.get('tests', '')).startswith('454 passed') and out.get('demo_with_change') == 1 and out.get('demo_without_change') == 0
        res = '; '.join('%s %s%s' % (c, {0: 'MISSED', 1: 'caught', 2: 'inconclusive'}.get(r['exit'], r['exit']), (': ' + ' / '.join(r['violation_keys'][:3])) if r['violation_keys'] else '')
                        for c, r in out.get('checks', {}).items())
        m = json.load(open(os.path.join(ROOT, 'seeded', sid, 'meta.json')))
        if m.get('assessment') and 'caught' not in res:
            res += ' - not claimed: ' + m['assessment'][:160] + ' ... (meta.json)'
        rows.append((sid, 'confirmed' if ok else 'NOT CONFIRMED (%s)' % json.dumps({k: out.get(k) for k in ('patch_applies', 'tests', 'demo_with_change', 'demo_without_change')}), res))
        print(sid, rows[-1][1], '|', res, flush=True)
head = subprocess.run(['git', '-C', '/repo', 'log', '-1', '--format=%h'], capture_output=True, text=True).stdout.strip()
with open(os.path.join(ROOT, 'seeded', 'STATUS.md') if ONLY is None else os.devnull, 'w') as f:
    f.write('# Seeded changes against the quick tier (tools/seedall.py), /repo at %s\n\n| id | change confirmed | checks |\n|---|---|---|\n' % head)
    for r in rows:
        f.write('| %s | %s | %s |\n' % tuple(str(x).replace('|', '\\|').replace('\n', ' ') for x in r))
bad = [r for r in rows if 'caught' not in r[2] and 'not claimed' not in r[2]]
print('%d seeds, %d not caught by any listed check' % (len(rows), len(bad)))
