#!/usr/bin/env python3
"""tools/addfinding.py fixed <prop> <key> <commit-subject-substring> <what failed>
   tools/addfinding.py known <prop> <key> <what fails>"""
import json, subprocess, sys, os
ROOT = os.path.dirname(os.path.dirname(os.path.abspath(__file__)))
fn = os.path.join(ROOT, 'known_findings.json')
kf = json.load(open(fn))
mode, prop, key = sys.argv[1:4]
if mode == 'fixed':
    sub, what = sys.argv[4:6]
    log = subprocess.run(['git', '-C', '/repo', 'log', '--format=%h %s'], capture_output=True, text=True).stdout.splitlines()
    c = [l.split()[0] for l in log if sub in l]
    assert len(c) == 1, (sub, c)
    ent = {'property': prop, 'key': key, 'status': 'fixed', 'commit': c[0], 'what': 'fixed: property=%s %s %s' % (prop, c[0], what)}
else:
    ent = {'property': prop, 'key': key, 'status': 'known', 'what': sys.argv[4]}
kf['findings'] = [f for f in kf['findings'] if not (f['property'] == prop and f['key'] == key)] + [ent]
json.dump(kf, open(fn, 'w'), indent=1)
print('ok', ent['what'][:100])
