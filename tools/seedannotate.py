#!/usr/bin/env python3
"""tools/seedannotate.py <id> [--checks C02,C03] [--tier quick] [--strengthened "text"]
Runs tools/seedeval.py for a stored seeded change and writes the outcome into seeded/<id>/meta.json
(confirmed / checks_run / result / strengthened)."""
import json, os, subprocess, sys
ROOT = os.path.dirname(os.path.dirname(os.path.abspath(__file__)))
a = sys.argv[1:]
sid = a[0]
note = a[a.index('--strengthened') + 1] if '--strengthened' in a else None
pass_on = [x for i, x in enumerate(a[1:], 1) if not (x == '--strengthened' or a[i - 1] == '--strengthened')]
p = subprocess.run([sys.executable, os.path.join(ROOT, 'tools', 'seedeval.py'), sid] + pass_on, capture_output=True, text=True)
out = json.loads(p.stdout[p.stdout.index('{'):])
mf = os.path.join(ROOT, 'seeded', sid, 'meta.json')
meta = json.load(open(mf))
meta.setdefault('breaks_property', sid[:3])
ok = out.get('patch_applies') and out.get('tests', '').startswith('454 passed') and out.get('demo_with_change') == 1 and out.get('demo_without_change') == 0
meta['confirmed'] = {'patch_applies_to_repo_head': bool(out.get('patch_applies')), 'repository_suite': out.get('tests'),
                     'demo': 'exit %s with the change, exit %s on /repo' % (out.get('demo_with_change'), out.get('demo_without_change')),
                     'all_confirmed': bool(ok),
                     'how': 'tools/seedeval.py %s (scratch copy of /repo + patch, VERIF_REPO pointing at it; nothing committed to /repo)' % sid}
res = out.get('checks', {})
meta['checks_run'] = ', '.join('%s %s' % (c, out.get('tier')) for c in res)
parts = []
for c, r in res.items():
    if r['exit'] == 1:
        parts.append('%s caught it: %s' % (c, ' / '.join(r['violation_keys'][:4])))
    elif r['exit'] == 2:
        parts.append('%s inconclusive: %s' % (c, '; '.join(r['inconclusive'])))
    else:
        parts.append('%s missed it (exit 0)' % c)
meta['result'] = '; '.join(parts)
if note:
    meta['strengthened'] = note
json.dump(meta, open(mf, 'w'), indent=1)
print(sid, 'confirmed' if ok else 'NOT CONFIRMED', '|', meta['result'][:300])
