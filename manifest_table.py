chk('C13', 'exploration',
    'Exhaustive run-time comparison of the real IsValidDataType against independently written value languages over a bounded but complete domain '
    '(all short strings over the digit/sign/point alphabet, every year-month-day 1799-2101, every HHMM, every single character 0-255 x charset x version); '
    'equality of two languages over a finite domain is decided completely, beyond the bound nothing is claimed.',
    'Trusted: vlib/ref_values.py (stdlib calendar) as the definition of the value languages; data types B/unknown are out of scope.',
    'reference-model monitor over an exhaustively enumerated bounded domain', 'DESIGN.md 5 C13')
chk('C17', 'exploration',
    'Run-time comparison of X12Path parse/print/re-parse with paths built from known parts (grid of ~130k paths, exhaustive over the grid) and with an '
    'independent hand-written parser on the printed path of every node of every shipped map; Segment.set/get histories compared position by position '
    'with a list-of-lists model. Held on the executions produced; the grid and history bounds are the limit of the claim.',
    'Trusted: the constructive path generator, hand_parse() and the list model in checks/c17.py.',
    'reference-model monitor (constructive grid + model-based set/get histories)', 'DESIGN.md 5 C17')
chk('C14', 'exploration',
    'Every syntax note of every shipped map x all presence patterns x all segment lengths is evaluated at run time by the real is_syntax_valid and by the X12 '
    'definition, and routed through the real segment validation with and without the notes to isolate the error codes they cause. The domain is finite and '
    'fully enumerated (exhaustive: true).',
    'Trusted: ref_ok() in checks/c14.py as the X12 definition; independent note parse from the XML; the baseline-subtraction trick assumes non-syntax checks do not depend on node.syntax.',
    'reference-model monitor, exhaustive enumeration over shipped maps', 'DESIGN.md 5 C14')
chk('C04', 'exploration',
    'The real X12Reader is iterated over tens of thousands of generated and mutated envelope sequences with pop_errors() sampled after every segment and after cleanup(); '
    'an independent recount decides proper nesting and the exact expected (segment, level, code) multiset; equality both ways gives "exactly when". '
    'Held on the sequences produced; every envelope code must have been expected at least once or the run is inconclusive.',
    'Trusted: vlib/ref_envelope.recount; don\'t-care classes listed in the evidence assumptions.',
    'reference-model monitor on generated + mutated envelope sequences', 'DESIGN.md 5 C04')
chk('C11', 'exploration',
    'The real X12Writer replays thousands of well-nested write histories (own / wrong / omitted trailers at every level, Close() after random and, in the thorough tier, all prefixes, '
    'seven delimiter settings, three eol conventions, both ISA versions); its text must equal a model byte for byte and the output is re-read by the real reader and by the independent recount.',
    'Trusted: the event model in checks/c11.py and vlib/ref_envelope.recount; the domain restriction to well-nested histories is the property\'s own.',
    'model-based monitor over generated write histories + independent re-read', 'DESIGN.md 5 C11')
chk('C01', 'exploration',
    'The real reader tokenises re-encoded fixture documents and generated segment soups (terminators steered onto the 8 KiB buffer boundaries, segments longer than one and two buffers, '
    'empty / blank-only segments, every line-break style) through seven kinds of source (whole reads, nine fixed chunk sizes, random short reads, open file, path); every read() is logged. '
    'An independent tokenizer is the oracle for content, format()+re-read for the round trip, and stream equality across sources for chunking independence.',
    'Trusted: vlib/ref_token.py; short reads are taken to be legal for a text stream (io.TextIOBase.read contract).',
    'reference-model monitor + metamorphic comparison across logged read chunkings', 'DESIGN.md 5 C01')
chk('C16', 'exploration',
    'Invariants evaluated over the live objects after real loading of every shipped map file in both loading modes, node by node (about 30 000 nodes): definedness of data elements and code sets, '
    'well-formedness of usage/limits/positions/notes, sibling distinguishability, self-addressability through getnodebypath/getnodebypath2, path uniqueness, and structural equality with an '
    'independent reading of the XML. The configuration space is finite and enumerated completely (exhaustive: true); genuine data defects found are listed in known_findings.json by mechanism key.',
    'Trusted: vlib/refmap.py (plain ElementTree reading of the same XML) and the qualifier rules in quals_of().',
    'invariants at quiescent points over live map objects, exhaustive', 'DESIGN.md 5 C16')
chk('C02', 'exploration',
    'Hundreds (quick) to thousands (thorough) of documents per run are generated from an independent reading of every selectable map and validated by the real x12n_document with the '
    'error tree, the ERROR log stream and the acknowledgement captured; any error at any level, a false verdict, a logged failure or a non-accepting acknowledgement is a violation. '
    'Reach counters of the walker/validator mechanisms and per-map segment-node coverage are part of the evidence. Held on the documents produced, inside the unambiguous sub-language of each map.',
    'Trusted: vlib/gen_doc.py + vlib/refmap.py (conservative conformance rules in DESIGN 4.1); a rejection is read against the map before being called a defect.',
    'runtime monitoring of the real validator on map-derived generated documents', 'DESIGN.md 5 C02')
chk('C07', 'exploration',
    'Thousands of mutated fixture/generated documents and arbitrary strings per run are pushed through x12n_document under all 16 sink/charset combinations, through plain reader '
    'iteration and through the context reader; every escaping exception is caught at the API boundary and classified against the documented refusals, and a deterministic step budget '
    '(sys.monitoring function-entry counter) stands in for termination. Absence of crashes is only claimed for the inputs produced; evidence carries the outcome histogram.',
    'Trusted: the allowed-outcome classifier in checks/c07.py; termination is a bounded-progress check, not a proof.',
    'runtime monitoring under mutation/fuzz workloads with exception classification and a logical step budget', 'DESIGN.md 5 C07')
chk('C05', 'exploration',
    'For every generated valid / multiply faulty / multi-set / multi-group / multi-interchange document (4010 and 5010) the boolean verdict, the captured error tree, the ERROR log stream and the '
    'parsed acknowledgement are compared with one another and with an independent recount of the input (groups, sets, GE01, accepted sets, segment ids at reported positions). '
    'Relational agreement is held on the documents produced; structural mutants are judged on the verdict relation only.',
    'Trusted: vlib/ref_ack.py, input_structure() recount in checks/c05.py, the acknowledgement code tables taken from the X12 997/999 definitions.',
    'relational runtime oracle over verdict, hooked error tree, log stream and parsed acknowledgement', 'DESIGN.md 5 C05')
chk('C06', 'exploration',
    'Every acknowledgement produced by hundreds of faulty, hostile (other delimiters, data containing ~ * : ^, 1-200 character echoes), many-error, missing-control-number and mutated inputs is '
    'checked for completeness, tokenised independently and recounted, re-read by the real reader, checked for foreign segments / extra elements / AK2 count against the error tree, and fed '
    'back to the real validator (no map-not-found; accepted when every copied value fits the 997/999 definitions); the segment order must spell the 997/999 grammar; inputs also include envelope soups, '
    'envelope values holding the acknowledgement\'s delimiters and acknowledgement groups (GS01=FA) in front of ordinary groups; the command-line validator (several files per invocation, options -x / -m) must '
    'write the same acknowledgements. Held on the acknowledgements produced.',
    'Trusted: vlib/ref_ack.py, vlib/ref_envelope.py and the conservative fits_definitions() table in checks/c06.py.',
    'runtime monitoring of generated acknowledgements: independent recount + re-read + re-validation', 'DESIGN.md 5 C06')
chk('C12', 'exploration',
    'Metamorphic runtime oracle: each fixture / generated / faulty / mutated document is validated in its original form and in 4 (quick) or 12 (thorough) admissible re-encodings '
    '(delimiter triples including control characters and newline terminator, five line-break conventions); verdict, error tuples and acknowledgement body must be identical.',
    'Trusted: vlib/reencode.py (re-encoding through the reference tokenizer); values that are the text of an invalid composite are compared modulo their own component separator.',
    'metamorphic comparison of monitored runs across re-encodings', 'DESIGN.md 5 C12')
chk('C08', 'exploration',
    'The real X12->XML renderer and XML->X12 converter run on generated documents of every selectable map (markup-hostile data, seven delimiter settings, repeated loops, multi-set/group/interchange, '
    'a not-used-element variant); the XML is parsed with expat and compared segment by segment with the generator\'s intended map paths and loop instances (bijection between loop elements and '
    'instances), element by element with the reference designators, and the converted text with the source. Evidence lists the pop/push transitions observed.',
    'Trusted: the generator\'s intended-path ground truth (vlib/gen_doc.py) and stdlib expat.',
    'runtime round-trip monitor against generator ground truth', 'DESIGN.md 5 C08')
chk('C09', 'exploration',
    'The real X12ContextReader iterates generated documents of every selectable map for no loop id, every (quick: sampled) segment-anchored loop id present, the three envelope loops and an absent '
    'loop id; flat equality with the tokenised source, tree rooting and maximal-run boundaries, ancestor loop ids and the bijection of loop nodes with generated loop instances, iterate order, '
    'seg_count and cur_line_number are all recounted from the generator\'s ground truth. Held on the (document, loop id) pairs produced.',
    'Trusted: intended paths / loop instances recorded by vlib/gen_doc.py.',
    'runtime partition monitor against generator ground truth', 'DESIGN.md 5 C09')
chk('C10', 'exploration',
    'Model-based runtime checking of the tree editing API: real loop trees from the context reader and a nested-list model built from the generator\'s ground truth receive the same random '
    'histories (get/set/exists/count/select/first/add_segment/add_loop/add_node/delete_segment/delete_node/copy, valid and garbage paths); return values, the agreement laws between the '
    'query methods, map-position ordering after insertions, the serialisation after every step and copy isolation (behavioural and by object-identity scan) are asserted. '
    'Held on the histories produced; every history is replayable from its key.',
    'Trusted: the model classes in checks/c10.py (MSeg/MLoop, m_select, m_first_segment, insert_idx).',
    'model-based runtime checking over generated API call histories', 'DESIGN.md 5 C10')
chk('C19', 'exploration',
    'The HTML written by the real x12n_document for fixtures, generated valid/faulty documents with markup canaries planted in echoed data, other delimiters, many-error segments, structural mutants and '
    'multi-interchange inputs is tokenised with html.parser: completeness, tag/attribute whitelist (nothing from the input may become markup), exact recovery of every source segment with its line number, '
    'and adjacency of every segment/element-level message of the captured error tree to its segment. A classifier of the report cursor\'s state separates the listed err_iter findings from anything new.',
    'Trusted: stdlib html.parser, vlib/ref_token.py for the source segments, the captured error tree for which messages must appear.',
    'runtime monitor of the rendered report against the source tokenisation and the hooked error tree', 'DESIGN.md 5 C19')
chk('C20', 'exploration',
    'The real command-line normaliser runs as a subprocess on scratch files (fixtures and generated documents, four delimiter settings, four line-break conventions, perturbed counts and HL numbers) '
    'under all combinations of --eol, --fixcounting and the three output modes; outputs are tokenised independently and compared with the input, re-normalised for the fixpoint, and recounted for the repair claim.',
    'Trusted: vlib/ref_token.py and vlib/ref_envelope.py; one input file per invocation; ASCII inputs.',
    'black-box runtime monitor of the CLI with independent tokenizer/recount oracles', 'DESIGN.md 5 C20')
chk('C18', 'exploration',
    'Histories of 6-20 documents (mixed maps, versions, valid/faulty, repeats, two parameter objects with different charsets re-used throughout) run in one process; every result is compared '
    'with the result of the same document in a fresh interpreter started under a different PYTHONHASHSEED (hundreds of fresh processes per run). Sentinels over every mutable default argument and '
    'module-level container of the loaded pyx12 modules are compared after each document. Held on the histories produced.',
    'Trusted: the normalisation of the exempted acknowledgement/HTML fields in checks/c18.py.',
    'differential runtime monitoring (history vs fresh interpreter, varying hash seed) + state sentinels at quiescent points', 'DESIGN.md 5 C18')
chk('C15', 'exploration',
    'The real element_if.is_valid / composite_if.is_valid are driven with the list-collecting error handler over every distinct definition (quick) or every node (thorough, exhaustive over the shipped maps) x a '
    'per-definition value catalogue spanning each constraint boundary x charset x external-code exclusion x date/time qualifier context; the reported code set must equal the set an independent reading of '
    'map + dataele + codes implies, and the boolean result must be False exactly when a code was reported.',
    'Trusted: expected_ele() in checks/c15.py, vlib/ref_values.py for data types, vlib/refmap.py for the definitions.',
    'reference-model monitor over an enumerated node x value catalogue', 'DESIGN.md 5 C15')
chk('C03', 'fault_enumeration',
    'A catalogue of 16 single-fault kinds (every kind the property lists) is applied one fault at a time to accepted conformant documents of every selectable map, at positions chosen so that matching of the '
    'neighbours is untouched; for each faulty document the real validator must return False and the captured error tree must hold the expected level/code at the expected set, position in set, element and '
    'component position and echoed value, the acknowledgement must itemise it under the right AK2, nothing else may be reported and every other set must stay accepted. '
    'Thousands of (map, node, kind) triples per quick run; the thorough tier repeats every applicable kind three times per base document over 60 bases per map.',
    'Trusted: vlib/faults.py (expected coordinates computed at injection time from the generator\'s records) and the conformance of the base documents (checked by validating the base first).',
    'fault injection with runtime localisation oracle over the hooked error tree and parsed acknowledgement', 'DESIGN.md 5 C03')
