chk('C13', 'exploration',
    'Exhaustive run-time comparison of the real IsValidDataType against independently written value languages over a bounded but complete domain '
    '(all short strings over the digit/sign/point alphabet, every year-month-day 1799-2101, every HHMM, every single character 0-255 x charset x version); '
    'equality of two languages over a finite domain is decided completely, beyond the bound nothing is claimed.',
    'Trusted: vlib/ref_values.py (stdlib calendar) as the definition of the value languages; data types B/unknown are out of scope.',
    'reference-model monitor over an exhaustively enumerated bounded domain', 'DESIGN.md 5 C13')
