import sys, io, random, collections
sys.path.insert(0,'/repo')
import pyx12.x12file, pyx12.segment as S
ISA='ISA*00*          *00*          *ZZ*A              *ZZ*B              *040608*1333*%s*%s*%s*0*P*:'
def gen(rng):
    """well-nested history -> list of ('W', segstr) ; and model output lines"""
    ops=[]; model=[]
    for i in range(rng.randint(1,3)):
        icvn=rng.choice(['00401','00501']); isa_id='%09d'%rng.randint(1,5)
        ops.append(ISA%('U' if icvn=='00401' else '^', icvn, isa_id)); model.append(('ISA',icvn,isa_id))
        ngs=0
        isa_close=rng.choice(['own','own','wrong','omit'])
        ngroups=rng.randint(0,3)
        for g in range(ngroups):
            gid=str(rng.randint(1,4)); ops.append('GS*HC*A*B*20040608*1333*%s*X*004010X098A1'%gid); model.append(('seg',ops[-1])); ngs+=1
            nst=0; nsets=rng.randint(0,3)
            # a GS trailer may be omitted only if it's the last group and ISA trailer/Close follows
            ge_close=rng.choice(['own','own','wrong','omit']) if g==ngroups-1 else rng.choice(['own','wrong'])
            for t in range(nsets):
                sid='%04d'%rng.randint(1,4); ops.append('ST*837*%s'%sid); model.append(('seg',ops[-1])); nst+=1; n=1
                for _ in range(rng.randint(0,4)):
                    ops.append(rng.choice(['BHT*0019*00*1','NM1*85*2*X','REF*87*1','HL*1**20*1'])); model.append(('seg',ops[-1])); n+=1
                se_close=rng.choice(['own','own','wrong','omit']) if t==nsets-1 else rng.choice(['own','wrong'])
                if se_close=='own': ops.append('SE*%d*%s'%(n+1,sid))
                elif se_close=='wrong': ops.append('SE*%s*%s'%(rng.choice(['99','X','']),rng.choice([sid,'9999'])))
                model.append(('tr','SE*%d*%s'%(n+1,sid)))
                if se_close=='omit' and ge_close not in ('own','wrong') and isa_close=='omit' and i!=0 and False: pass
            if ge_close=='own': ops.append('GE*%d*%s'%(nst,gid))
            elif ge_close=='wrong': ops.append('GE*%s*%s'%(rng.choice(['7','X']),rng.choice([gid,'77'])))
            model.append(('tr','GE*%d*%s'%(nst,gid)))
        if isa_close=='own': ops.append('IEA*%d*%s'%(ngs,isa_id))
        elif isa_close=='wrong': ops.append('IEA*%s*%s'%(rng.choice(['5','Q']),'000000099'))
        elif i!=ngs_dummy: pass
        model.append(('tr','IEA*%d*%s'%(ngs,isa_id)))
        if isa_close=='omit': break   # nothing may follow an unclosed interchange except Close
    return ops, model
ngs_dummy=-1
def render(model, st,et,sb,rep,eol):
    out=[]
    for m in model:
        if m[0]=='ISA':
            s=ISA%((rep if m[1]=='00501' else 'U'), m[1], m[2]); parts=s.split('*'); parts[16]=sb; out.append(et.join(parts)+st)
        else:
            out.append(m[1].replace(':','\x00').replace('*',et).replace('\x00',sb)+st)
    return eol.join(out)+eol
rng=random.Random(7); disc=collections.Counter(); samples={}; N=3000; nontriv=0
for k in range(N):
    ops,model=gen(rng)
    st,et,sb,rep,eol=rng.choice([('~','*',':','^','\n'),('!','|','>','^',''),('\x1c','\x1d','<','^','\r\n')])
    fd=io.StringIO(); w=pyx12.x12file.X12Writer(fd,st,et,sb,eol,rep)
    try:
        for o in ops: w.Write(S.Segment(o,'~','*',':'))
        w.Close()
    except Exception as e:
        kx=('EXC',type(e).__name__,str(e)[:50]); disc[kx]+=1; samples.setdefault(kx,ops); continue
    got=fd.getvalue(); want=render(model,st,et,sb,rep,eol)
    if got!=want:
        gl=got.split(st); wl=want.split(st)
        for a,b in zip(gl,wl):
            if a!=b: kx=('diff',b.strip()[:3]); disc[kx]+=1; samples.setdefault(kx,(a.strip()[:60],b.strip()[:60],ops)); break
        else: kx=('len',len(gl)-len(wl)); disc[kx]+=1; samples.setdefault(kx,(ops,got[-80:],want[-80:]))
        continue
    r=pyx12.x12file.X12Reader(io.StringIO(got)); errs=[]
    for s in r: errs+=[e for e in r.pop_errors() if e[1] not in('025','6','23','HL1','HL2')]
    r.cleanup(); errs+=r.pop_errors()
    if errs: kx=('reader-errs',tuple(sorted(set(e[1] for e in errs)))); disc[kx]+=1; samples.setdefault(kx,(ops,errs[:2]))
print(N, dict(disc)); 
for k,v in samples.items(): print(k,'\n    ',str(v)[:400])
