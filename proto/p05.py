import re
from h import *
import pyx12.error_handler as EH, random, collections, gen, refmap
trees=[]
orig = EH.err_handler.__init__
def init(self,*a,**k):
    orig(self,*a,**k); trees.append(self)
EH.err_handler.__init__ = init
class H(logging.Handler):
    def __init__(s): super().__init__(); s.msgs=[]
    def emit(s, rec):
        if rec.levelno>=logging.ERROR: s.msgs.append((rec.name, rec.getMessage()))
lg=logging.getLogger('pyx12')
def tok(text):
    st, et, sb = text[105], text[3], text[104]
    out=[]
    for p in text.split(st):
        p=p.lstrip('\r\n').lstrip(' ')
        if p: out.append(p.split(et))
    return out
AK3C=('1','2','3','4','5','6','7','8'); AK4C=('1','2','3','4','5','6','7','8','9','10')
IK3C=AK3C+('I4','I6','I7','I8','I9'); IK4C=AK4C+('12','13','I10','I11','I12','I13','I6','I9')
def check(text):
    trees.clear(); h=H(); lg.addHandler(h)
    try: r = run(text, xml=False, html=False)
    finally: lg.removeHandler(h)
    if r[0]=='EXC': return ['EXC '+r[1]]
    verdict, ack = r[0], r[1]
    errh=trees[0]; probs=[]
    ntree = errh.get_error_count()
    reported=[m for n,m in h.msgs if n=='pyx12.error_handler']
    if verdict != (ntree==0 and not reported): probs.append('verdict=%s tree=%d logged=%d'%(verdict,ntree,len(reported)))
    if ntree==0 and reported: probs.append('logged-not-in-tree')
    inp=tok(text)
    if inp[1][0]=='GS' and inp[1][1]=='FA': return probs
    if not ack: probs.append('no-ack'); return probs
    a=tok(ack); v5 = a[0][12]=='00501'
    # address
    if (a[0][5],a[0][6].strip(),a[0][7],a[0][8].strip()) != (inp[0][7],inp[0][8].strip(),inp[0][5],inp[0][6].strip()): probs.append('isa-address')
    # walk input groups/sets
    groups=[]; 
    for s in inp:
        if s[0]=='GS': groups.append({'gs':s,'sts':[], 'ge':None})
        elif s[0]=='ST' and groups: groups[-1]['sts'].append(s)
        elif s[0]=='GE' and groups: groups[-1]['ge']=s
    # walk ack
    ak=[]; cur=None
    for s in a:
        if s[0]=='AK1': cur={'ak1':s,'sets':[],'ak9':None}; ak.append(cur)
        elif s[0]=='AK2': cur['sets'].append({'ak2':s,'items':[],'ak5':None})
        elif s[0] in ('AK3','AK4','IK3','IK4','CTX'): 
            if cur['sets']: cur['sets'][-1]['items'].append(s)
            else: probs.append('item-outside-set')
        elif s[0] in ('AK5','IK5'): cur['sets'][-1]['ak5']=s
        elif s[0]=='AK9': cur['ak9']=s
    if len(ak)!=len(groups): probs.append('groups %d vs ack %d'%(len(groups),len(ak))); return probs
    # tree groups
    tgs=[gs for isa in errh.children for gs in isa.children]
    for g,k,tg in zip(groups,ak,tgs):
        if (k['ak1'][1],k['ak1'][2])!=(g['gs'][1],g['gs'][6]): probs.append('ak1')
        if len(k['sets'])!=len(g['sts']): probs.append('sets %d vs ak2 %d'%(len(g['sts']),len(k['sets']))); continue
        acc=0
        for st,ks,tst in zip(g['sts'],k['sets'],tg.children):
            if ks['ak2'][1:3]!=[st[1],st[2].strip()]: probs.append('ak2')
            a5 = ks['ak5'][1] if ks['ak5'] else None
            clean = tst.get_error_count()==0
            if (a5=='A')!=clean: probs.append('ak5=%s tree-clean=%s'%(a5,clean))
            if a5=='A': acc+=1
            # itemisation
            items=[tuple(x) for x in ks['items']]
            for sg in tst.children:
                for c,_,v in sg.errors:
                    c2 = '8' if c=='SEG1' else c
                    if c2 in (IK3C if v5 else AK3C):
                        want=[x for x in items if x[0] in('AK3','IK3') and x[1]==sg.seg_id and x[2]==str(sg.seg_count) and len(x)>4 and x[4]==c2]
                        if not want: probs.append('seg-error-not-itemised '+c2)
                for e in sg.elements:
                    for c,_,v in e.errors:
                        if c in (IK4C if v5 else AK4C):
                            pos = '%d'%e.ele_pos + ((':%d'%e.subele_pos) if e.subele_pos else '')
                            want=[x for x in items if x[0] in('AK4','IK4') and x[1]==pos and (len(x)>3 and x[3]==c) and ((not v) or (len(x)>4 and x[4]==v))]
                            if not want: probs.append('ele-error-not-itemised %s val=%r'%(c,v))
        k9=k['ak9']
        gclean = tg.get_error_count()==0
        if (k9[1]=='A')!=gclean: probs.append('ak901=%s group-clean=%s'%(k9[1],gclean))
        ge01 = g['ge'][1] if g['ge'] and len(g['ge'])>1 else None
        try: ge01i=int(ge01)
        except Exception: ge01i=None
        if ge01i is not None and k9[2]!=str(ge01i): probs.append('ak902 %s vs GE01 %s'%(k9[2],ge01))
        if k9[3]!=str(len(g['sts'])): probs.append('ak903 %s vs recv %d'%(k9[3],len(g['sts'])))
        if k9[4]!=str(acc): probs.append('ak904 %s vs accepted %d'%(k9[4],acc))
    return probs
tot=collections.Counter(); samples={}
for k,v in datafiles.items():
    p=check(v['source'])
    for x in p: tot[re.sub(r'\d+','N',x)]+=1; samples.setdefault(re.sub(r'\d+','N',x),k)
    print(k, p[:4])
# generated docs with random element corruption
idx = {m['file']:m for m in refmap.load_index() if m['vriic'] and m['icvn'] in('00401','00501')}
rng=random.Random(5); n=0
for fn in ['837.4010.X098.A1.xml','834.5010.X220.A1.xml','835.4010.X091.A1.xml','837.5010.X222.A1.xml','270.4010.X092.A1.xml','277.5010.X214.xml']:
    for seed in range(6):
        try: out=gen.gen_document(fn, idx[fn], seed)
        except Exception as e: continue
        # corrupt 0-3 random body elements
        for _ in range(rng.randint(0,3)):
            i=rng.randrange(3,len(out)-3); node,vals=out[i]
            if not vals or node.id in('SE','ST','GE','GS'): continue
            j=rng.randrange(len(vals))
            if isinstance(vals[j],list): continue
            if j==0: continue
            vals[j]=rng.choice(['','ZZZZZZZZZZZZZZZZZZZZZZZZZZZZZZZZZZZZZZZZZZZZZZZZZZZZZZZZZZZZZZZZZZZZZZZZZZZZZZZZZZZZZ','QQ','20231345','A1'])
        text=gen.render(out); n+=1
        p=check(text)
        for x in p:
            kx=re.sub(r'\d+','N',x); tot[kx]+=1; samples.setdefault(kx,(fn,seed))
print(n,'generated'); 
for k,v in tot.most_common(): print(v,k,samples[k])
print('---- debug')
rng=random.Random(5)
# replay the same rng consumption
for fn in ['837.4010.X098.A1.xml','834.5010.X220.A1.xml','835.4010.X091.A1.xml','837.5010.X222.A1.xml','270.4010.X092.A1.xml','277.5010.X214.xml']:
    for seed in range(6):
        out=gen.gen_document(fn, idx[fn], seed); ch=[]
        for _ in range(rng.randint(0,3)):
            i=rng.randrange(3,len(out)-3); node,vals=out[i]
            if not vals or node.id in('SE','ST','GE','GS'): continue
            j=rng.randrange(len(vals))
            if isinstance(vals[j],list): continue
            if j==0: continue
            vals[j]=rng.choice(['','ZZZZZZZZZZZZZZZZZZZZZZZZZZZZZZZZZZZZZZZZZZZZZZZZZZZZZZZZZZZZZZZZZZZZZZZZZZZZZZZZZZZZZ','QQ','20231345','A1']); ch.append((i,node.path(),j,vals[j]))
        if fn.startswith('837.5010') and seed==5:
            text=gen.render(out); print(ch); print(check(text))
            r=run(text,xml=False,html=False); print(r[1])
            print([l for l in text.splitlines() if l[:3] in ('ST*','SE*','GS*','GE*')])
