import re
from h import *
import gen, refmap, logging, sys
idx = {m['file']:m for m in refmap.load_index() if m['icvn'] in ('00401','00501') and m['vriic']}
fn, seed = sys.argv[1], int(sys.argv[2])
out = gen.gen_document(fn, idx[fn], seed)
d = gen.render(out)
class H(logging.Handler):
    def emit(s, rec): print('LOG', rec.getMessage()[:200])
lg = logging.getLogger('pyx12'); lg.addHandler(H())
for i,(n,v) in enumerate(out): print(i+1, n.path(), gen.render([(n,v)]).strip()[:90])
r = run(d, xml=False, html=False)
print(r[0])
