import sys, itertools, collections
sys.path.insert(0,'/repo')
from pyx12.path import X12Path
from pyx12.errors import X12PathError
loops=['2000A','ISA_LOOP','2300','HEADER','1000B','2010AA']
segs=[None,'NM1','N3','CLM','HL','K3','ST']
quals=[None,'85','ZZ9']
eles=[None,1,2,10,99]
subs=[None,1,2,10]
disc=collections.Counter(); samples={}; n=0
for rel in (True,False):
  for depth in range(0,4):
    for ll in itertools.product(loops, repeat=depth) if depth<3 else [tuple(loops[:3]),tuple(loops[3:])]:
      for sg,q,e,sb in itertools.product(segs,quals,eles,subs):
        if sb is not None and e is None: continue
        last = (sg or '') + ('[%s]'%q if q else '') + ('%02d'%e if e else '') + ('-%d'%sb if sb else '')
        parts=list(ll)+([last] if last else [])
        if not parts and not rel: text='/'
        else: text=('' if rel else '/')+'/'.join(parts)
        if text=='' : continue
        n+=1
        expect_err = (sg is None and q is not None) or (sg is None and e is not None and len(ll)>0)
        try:
            p=X12Path(text)
        except X12PathError:
            if not expect_err: disc['unexpected X12PathError']+=1; samples.setdefault('unexpected X12PathError',text)
            continue
        except Exception as ex:
            k='EXC '+type(ex).__name__; disc[k]+=1; samples.setdefault(k,text); continue
        if expect_err: disc['missing X12PathError']+=1; samples.setdefault('missing X12PathError',text); continue
        fields=(p.relative,tuple(p.loop_list),p.seg_id,p.id_val,p.ele_idx,p.subele_idx)
        exp=(rel,tuple(ll),sg,q,e,sb)
        if text=='/': exp=(False,(),None,None,None,None)
        if fields!=exp: k='fields'; disc[k]+=1; samples.setdefault(k,(text,fields,exp))
        f=p.format()
        if f!=text: k='format'; disc[k]+=1; samples.setdefault(k,(text,f))
        try:
            if X12Path(f)!=p: disc['reparse-neq']+=1; samples.setdefault('reparse-neq',(text,f))
        except Exception as ex: disc['reparse-exc']+=1; samples.setdefault('reparse-exc',(text,f,str(ex)))
print(n, dict(disc)); print(samples)
