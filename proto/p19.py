import re, html as htmllib, collections
from h import *
import pyx12.error_handler as EH
trees=[]
orig = EH.err_handler.__init__
def init(self,*a,**k):
    orig(self,*a,**k); trees.append(self)
EH.err_handler.__init__ = init
def tok(text):
    st = text[105]
    return [p.lstrip('\r\n').lstrip(' ') for p in text.split(st) if p.lstrip('\r\n').strip()]
disc=collections.Counter(); samples={}
def note(k,s): disc[k]+=1; samples.setdefault(k,s)
for name,v in datafiles.items():
    trees.clear()
    r = run(v['source'], xml=False)
    if r[0]=='EXC': note(('EXC',r[1]),name); continue
    h=r[2]; errh=trees[0]
    if not h.rstrip().endswith('</html>'): note(('incomplete',),name)
    lines=h.split('\n')
    # sequence of (kind, payload)
    seq=[]
    for l in lines:
        m=re.match(r'<span class="seg">(\d+):&nbsp;(.*)</span><br />$', l)
        if m:
            body=re.sub(r'</?span[^>]*>','',m.group(2))
            seq.append(('seg',int(m.group(1)),htmllib.unescape(body).replace('\xa0',' '))); continue
        m=re.match(r'<span class="error">&nbsp;(.*) \((Segment|Element) Error Code: (\w+)\)</span><br />$', l)
        if m: seq.append(('err',m.group(2),m.group(3),m.group(1)))
    src=tok(v['source']); st=v['source'][105]
    hsegs=[(n,s) for k,n,s in [x for x in seq if x[0]=='seg']]
    want=[(i+1,s+st) for i,s in enumerate(src)]
    def trim(s):  # trailing empties trimmed by Segment
        return s
    if [n for n,_ in hsegs]!=[n for n,_ in want]: note(('line-numbers',),(name,[n for n,_ in hsegs][:5]))
    elif [s for _,s in hsegs]!=[s for _,s in want]:
        for a,b in zip(hsegs,want):
            if a!=b: note(('seg-text',),(name,a,b)); break
    # errors per segment line: map cur_line -> set of (level,code,msg)
    want_err=collections.defaultdict(list)
    for isa in errh.children:
        for gs in isa.children:
            for stn in gs.children:
                for sg in stn.children:
                    for c,msg,val in sg.errors: want_err[sg.cur_line].append(('Segment',c,msg))
                    for e in sg.elements:
                        for c,msg,val in e.errors: want_err[sg.cur_line].append(('Element',c,msg))
    # html: group errors: those before a seg line with code 3 belong to it; others after
    got_err=collections.defaultdict(list); cur=None; pending=[]
    for x in seq:
        if x[0]=='seg':
            cur=x[1]
            for p in pending: got_err[cur].append(p)
            pending=[]
        else:
            item=(x[1],x[2],x[3])
            if x[1]=='Segment' and x[2]=='3': pending.append(item)
            elif cur is not None: got_err[cur].append(item)
    for line,errs in want_err.items():
        for e in errs:
            if e not in got_err.get(line,[]):
                # is it somewhere else?
                where=[l for l,es in got_err.items() if e in es]
                note(('msg-missing-at-segment', e[0], e[1], 'elsewhere' if where else 'nowhere'), (name,line,e[2][:60],where[:3]))
print(dict(disc))
for k,v in samples.items(): print(k,'\n    ',str(v)[:300])
