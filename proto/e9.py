import re
from h import *
import gen, refmap, logging, collections, sys
idx = [m for m in refmap.load_index() if m['icvn'] in ('00401','00501') and m['vriic']]
seen=set()
class H(logging.Handler):
    def __init__(s): super().__init__(); s.msgs=[]
    def emit(s, rec): s.msgs.append(rec.getMessage())
lg = logging.getLogger('pyx12'); 
N = int(sys.argv[1]) if len(sys.argv)>1 else 5
for m in idx:
    if m['file'] in seen: continue
    seen.add(m['file'])
    ok=bad=exc=0; errs=collections.Counter()
    for seed in range(N):
        try:
            out = gen.gen_document(m['file'], m, seed)
        except Exception as e:
            exc+=1; errs["GEN "+type(e).__name__+" "+str(e)[:60]]+=1; continue
        d = gen.render(out)
        h=H(); lg.addHandler(h)
        r = run(d, xml=False, html=False)
        lg.removeHandler(h)
        if r[0] is True: ok+=1
        else:
            bad+=1
            if r[0]=='EXC': errs['EXC '+r[1]+' '+r[2][:80]]+=1
            for msg in h.msgs[:3]: errs[re.sub(r'Line:\d+ ','',msg)[:110] if False else msg.split(' ',1)[1][:120]]+=1
    print(m['file'], 'ok',ok,'bad',bad,'genexc',exc)
    for k,v in errs.most_common(6): print('    ',v,k)
