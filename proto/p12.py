from h import *
import pyx12.error_handler as EH, random
trees=[]
orig = EH.err_handler.__init__
def init(self,*a,**k):
    orig(self,*a,**k); trees.append(self)
EH.err_handler.__init__ = init
def errs(errh):
    out=[]
    for isa in errh.children:
        out += [('isa',c) for c,_ in isa.errors] + [('isa-ele',e.ele_pos,c,v) for e in isa.elements for c,_,v in e.errors]
        for gs in isa.children:
            out += [('gs',c) for c,_ in gs.errors] + [('gs-ele',e.ele_pos,c,v) for e in gs.elements for c,_,v in e.errors]
            for st in gs.children:
                out += [('st',st.trn_set_control_num,c) for c,_ in st.errors] + [('st-ele',e.ele_pos,c,v) for e in st.elements for c,_,v in e.errors]
                for sg in st.children:
                    out += [('seg',sg.seg_id,sg.seg_count,c,v) for c,_,v in sg.errors]
                    out += [('ele',sg.seg_id,sg.seg_count,e.ele_pos,e.subele_pos,c,v) for e in sg.elements for c,_,v in e.errors]
    return sorted(map(str,out))
def tok(text):
    st, et, sb = text[105], text[3], text[104]
    segs=[]
    for p in text.split(st):
        p=p.lstrip('\r\n')
        if p: segs.append(p)
    return segs, st, et, sb
def reenc(text, nst, net, nsb, eol):
    segs, st, et, sb = tok(text)
    data=''.join(segs)
    out=[]
    for s in segs:
        if s.startswith('ISA'):
            parts=s.split(et); 
            if len(parts)==17: parts[16]=nsb
            out.append(net.join(parts))
        else:
            out.append(s.replace(sb,'\x00').replace(et,'\x01').replace('\x00',nsb).replace('\x01',net))
    return (nst+eol).join(out)+nst+eol
def body(ack):
    if not ack: return None
    return [l for l in ack.replace('\n','').split('~') if l[:3] not in ('ISA','GS*','ST*','SE*','GE*','IEA','TA1','')]
def one(text):
    trees.clear()
    r = run(text, xml=False, html=False)
    if r[0]=='EXC': return ('EXC',r[1])
    return (r[0], errs(trees[0]) if trees else None, body(r[1]))
rng=random.Random(3)
for k,v in datafiles.items():
    base=one(v['source'])
    res=[]
    for (a,b,c,eol) in [('!','|','>',''),('\x1c','\x1d','\x1e','\r\n'),('~','*',':','\r'),('$','+','<','\n\n')]:
        segs,st,et,sb=tok(v['source']); data=''.join(segs)
        if any(ch in data.replace(st,'').replace(et,'').replace(sb,'') for ch in (a,b,c) if ch not in (st,et,sb)): res.append('skip'); continue
        t=reenc(v['source'],a,b,c,eol)
        o=one(t)
        res.append('same' if o==base else 'DIFF')
        if o!=base and base[0]!='EXC':
            if o[0]!=base[0]: print('   verdict', base[0], o[0])
            elif o[1]!=base[1]: print('   errs', [x for x in base[1] if x not in o[1]][:3], [x for x in o[1] if x not in base[1]][:3])
            else: print('   ack', [x for x in base[2] if x not in o[2]][:3], [x for x in o[2] if x not in base[2]][:3])
    print(k, base[0], res)
