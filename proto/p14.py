import sys, glob, os, itertools, collections, logging
sys.path.insert(0,'/repo')
import refmap, gen
import pyx12.map_if, pyx12.params, pyx12.segment, pyx12.syntax, pyx12.error_handler
logging.getLogger('pyx12').addHandler(logging.NullHandler()); logging.getLogger('pyx12').propagate=False
param = pyx12.params.params()
files = sorted(os.path.basename(f) for f in glob.glob(refmap.MAPDIR+'/*.xml') if os.path.basename(f)[0].isdigit() or os.path.basename(f).startswith('x12.'))
n=0; disc=collections.Counter(); samples={}; notes=0; malformed=collections.Counter()
for fn in files:
    try: m = pyx12.map_if.load_map_file(fn, param)
    except Exception as e: print('LOAD FAIL', fn); continue
    for node in m.loop_segment_iterator():
        if not node.is_segment() or not node.syntax: continue
        for syn in node.syntax:
            notes+=1
            idx = syn[1:]
            note = syn[0]+''.join('%02d'%i for i in idx)
            nchild = len(node.children)
            if max(idx) > nchild: malformed[(fn,node.id,note,'pos>elements')]+=1
            if len(idx)<2: malformed[(fn,node.id,note,'<2 positions')]+=1; continue
            mx = max(idx)
            for pat in itertools.product([0,1], repeat=len(idx)):
                for L in range(0, mx+2):
                    vals = ['']*L
                    for i,p in zip(idx,pat):
                        if p and i<=L: vals[i-1]='X'
                    pres = lambda i: i<=L and vals[i-1]!=''
                    seg = pyx12.segment.Segment(node.id + ''.join('*'+v for v in vals), '~','*',':')
                    got,_ = pyx12.syntax.is_syntax_valid(seg, syn)
                    exp = gen.syn_ok(note, pres)
                    n+=1
                    if got!=exp:
                        k=(syn[0],'exp',exp,'got',got); disc[k]+=1; samples.setdefault(k,(fn,node.id,note,seg.format()))
print('notes',notes,'evals',n,'disc',dict(disc)); print(samples); print(dict(malformed))
