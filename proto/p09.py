import re
from h import *
import gen, refmap, collections, xml.etree.ElementTree as ET
import pyx12.xmlx12_simple
idx = {m['file']:m for m in refmap.load_index() if m['vriic'] and m['icvn'] in('00401','00501')}
def tok(text):
    st, et, sb = text[105], text[3], text[104]
    return [p.lstrip('\r\n') for p in text.split(st) if p.lstrip('\r\n')]
def norm(seg):  # trim trailing empties
    if seg.startswith('ISA'): return seg
    parts=seg.split('*')
    parts=[':'.join(re.sub(r':+$','',p).split(':')) for p in parts]
    while parts and parts[-1]=='': parts.pop()
    return '*'.join(parts)
disc=collections.Counter(); samples={}
def note(k, s):
    disc[k]+=1; samples.setdefault(k, s)
def c09(fn, out, text):
    segs=tok(text)
    paths=[n.parent.path() for n,_ in out]   # loop path of each segment
    lids=set()
    for n,_ in out:
        lp=n.parent
        while lp.kind=='loop':
            if lp.first_seg() is not None: lids.add(lp.id)
            lp=lp.parent
    for L in [None]+sorted(lids):
        p = pyx12.params.params(); errh = pyx12.error_handler.errh_null()
        try:
            r = pyx12.x12context.X12ContextReader(p, errh, io.StringIO(text))
            flat=[]; trees=[]
            for nd in r.iter_segments(L):
                if nd.type=='seg': flat.append(nd.seg_data.format()[:-1])
                else:
                    ss=[x['segment'].format()[:-1] for x in nd.iterate_segments()]
                    trees.append((nd.id, len(flat), len(ss))); flat+=ss
        except Exception as e:
            note(('C09 EXC',type(e).__name__,str(e)[:50]), (fn,L)); continue
        want=[norm(s) for s in segs]
        if [norm(s) for s in flat]!=want:
            k=('C09 flat-mismatch', 'lost-tail' if [norm(s) for s in flat]==want[:len(flat)] else 'other', 'envelope' if L in('ISA_LOOP','GS_LOOP','ST_LOOP') else 'inner')
            note(k,(fn,L,len(flat),len(want))); continue
        # boundaries: expected runs
        exp=[]; i=0
        while i<len(out):
            comp=[c for c in paths[i].split('/') if c]
            if L in comp and out[i][0] is out[i][0].parent.first_seg() and comp[-1]==L:
                j=i+1
                while j<len(out):
                    cj=[c for c in paths[j].split('/') if c]
                    if L not in cj: break
                    if cj[-1]==L and out[j][0] is out[j][0].parent.first_seg(): break
                    j+=1
                exp.append((L,i,j-i)); i=j
            else: i+=1
        if L is not None and exp!=trees: note(('C09 tree-boundaries',), (fn,L,exp[:3],trees[:3]))
def c08(fn, out, text):
    p = pyx12.params.params(); fx=io.StringIO()
    try: ok = pyx12.x12n_document.x12n_document(p, io.StringIO(text), None, None, fx)
    except Exception as e: note(('C08 EXC x12->xml',type(e).__name__), fn); return
    try: root=ET.fromstring(fx.getvalue())
    except Exception as e: note(('C08 xml-not-wellformed',str(e)[:40]), fn); return
    # structure: loop chain of each seg
    got=[]
    def walk(el, chain):
        for c in el:
            if c.tag=='loop': walk(c, chain+[c.get('id')])
            elif c.tag=='seg': got.append(('/'+'/'.join(chain), c.get('id')))
    walk(root, [])
    want=[(n.parent.path(), n.id) for n,_ in out]
    if got!=want:
        for a,b in zip(got,want):
            if a!=b: note(('C08 path-mismatch',), (fn,a,b)); break
        else: note(('C08 seg-count',len(got)-len(want)), fn)
    fo=io.StringIO()
    try: pyx12.xmlx12_simple.convert(io.StringIO(fx.getvalue()), fo)
    except Exception as e: note(('C08 EXC xml->x12',type(e).__name__,str(e)[:60]), fn); return
    back=[norm(s) for s in tok(fo.getvalue())]
    orig=[norm(s) for s in tok(text)]
    def mask(s):
        if s.startswith('ISA'):
            p_=s.split('*'); p_[11]='?'; p_[16]='?'; return '*'.join(p_)
        return s
    if list(map(mask,back))!=list(map(mask,orig)):
        for a,b in zip(back,orig):
            if mask(a)!=mask(b): note(('C08 roundtrip-diff',a.split('*')[0]), (fn,a[:80],b[:80])); break
        else: note(('C08 roundtrip-len',len(back)-len(orig)),fn)
n=0
for fn in sorted(idx):
    if fn.startswith('841'): continue
    for seed in range(3):
        try: out=gen.gen_document(fn, idx[fn], seed, maxrep=2)
        except Exception as e: continue
        text=gen.render(out); n+=1
        c09(fn,out,text); c08(fn,out,text)
print(n,'docs')
for k,v in disc.most_common(): print(v,k,'\n     ',str(samples[k])[:260])
