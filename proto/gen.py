"""Prototype conformant-document generator driven by an independent reading of a map."""
import random, re, calendar
import refmap

DE = refmap.load_dataele()
CODES = refmap.load_codes()

AN_ALPHA = 'ABCDEFGHIJKLMNOPQRSTUVWXYZ0123456789'


def rand_date8(rng):
    y = rng.choice([1900, 1999, 2000, 2004, 2012, 2024, 1800, 2100])
    m = rng.randint(1, 12)
    d = rng.randint(1, calendar.monthrange(y, m)[1])
    return '%04d%02d%02d' % (y, m, d)


def rand_time(rng, n=4):
    s = '%02d%02d' % (rng.randint(0, 23), rng.randint(0, 59))
    if n >= 6:
        s += '%02d' % rng.randint(0, 59)
    if n > 6:
        s += ''.join(rng.choice('0123456789') for _ in range(n - 6))
    return s


def gen_value(rng, ele, qual_fmt=None, cap=12):
    dtype, mn, mx = DE[ele.data_ele]
    if ele.codes or ele.external:
        pool = list(ele.codes)
        if ele.external:
            pool = pool + [c for c in CODES[ele.external]][:50]
        pool = [c for c in pool if c and mn <= len(c) <= mx and c == c.rstrip()]
        if pool:
            return rng.choice(pool)
    if qual_fmt:
        if qual_fmt == 'D8':
            return rand_date8(rng)
        if qual_fmt == 'RD8':
            return rand_date8(rng) + '-' + rand_date8(rng)
        if qual_fmt == 'D6':
            return rand_date8(rng)[2:]
        if qual_fmt == 'DT':
            return rand_date8(rng) + rand_time(rng, 4)
        if qual_fmt == 'TM':
            return rand_time(rng, 4)
    hi = min(mx, max(mn, cap))
    n = rng.randint(mn, hi)
    if ele.regex:
        m = re.fullmatch(r'\[0-9\]\{(\d+)\}', ele.regex)
        if m:
            return ''.join(rng.choice('0123456789') for _ in range(int(m.group(1))))
    if dtype == 'DT':
        return rand_date8(rng) if mn >= 8 else rand_date8(rng)[2:]
    if dtype == 'TM':
        return rand_time(rng, n if n in (4, 6, 7, 8) else 4)
    if dtype[0] == 'N':
        return ''.join(rng.choice('0123456789') for _ in range(n))
    if dtype == 'R':
        s = ''.join(rng.choice('0123456789') for _ in range(n))
        if n >= 2 and rng.random() < 0.3:
            k = rng.randint(1, n - 1)
            s = s[:k] + '.' + s[k:]
        return s
    if dtype == 'ID':
        return ''.join(rng.choice(AN_ALPHA) for _ in range(n))
    # AN
    s = ''.join(rng.choice(AN_ALPHA + ' ') for _ in range(n))
    s = s.strip() or 'A'
    while len(s) < mn:
        s += 'X'
    return s


def syn_ok(note, present):
    """present: callable(pos)->bool.  Independent X12 syntax-note semantics."""
    t = note[0]
    idx = [int(note[i:i + 2]) for i in range(1, len(note), 2)]
    p = [present(i) for i in idx]
    if t == 'P':
        return all(p) or not any(p)
    if t == 'R':
        return any(p)
    if t == 'E':
        return sum(p) <= 1
    if t == 'C':
        return (not p[0]) or all(p[1:])
    if t == 'L':
        return (not p[0]) or any(p[1:])
    return True


def choose_presence(rng, seg, fill):
    """Pick which element positions are present, satisfying usage + syntax notes."""
    kids = seg.children
    req = set(k.seq for k in kids if k.usage == 'R')
    opt = [k.seq for k in kids if k.usage == 'S']
    for attempt in range(200):
        if attempt < 150:
            pres = set(req) | set(s for s in opt if rng.random() < fill)
        else:
            pres = set(req) | set(opt) if attempt % 2 else set(req)
        if pres and all(syn_ok(n, lambda i: i in pres) for n in seg.syntax):
            return pres
    return None


def qualifier_of(segnode):
    """Which element acts as the match qualifier for a map segment node -> (refdes path, codes) or None"""
    k = segnode.children
    if not k:
        return None
    f = k[0]
    if f.kind == 'ele' and DE.get(f.data_ele, ('?',))[0] == 'ID' and f.usage == 'R' and f.codes:
        return ((1, None), f.codes)
    if segnode.id == 'ENT' and len(k) > 1 and k[1].kind == 'ele' and DE[k[1].data_ele][0] == 'ID' and k[1].codes:
        return ((2, None), k[1].codes)
    if f.kind == 'comp' and f.children and f.children[0].codes and (DE[f.children[0].data_ele][0] == 'ID' or segnode.id == 'CTX'):
        return ((1, 1), f.children[0].codes)
    if segnode.id == 'HL' and len(k) > 2 and k[2].kind == 'ele' and k[2].codes:
        return ((3, None), k[2].codes)
    return None


def quals_of(segnode):
    """all qualifier tests (AND) a data segment must pass to match this node: [((ele, sub), codes)]"""
    k = segnode.children
    out = []
    if not k:
        return out
    f = k[0]
    if f.kind == 'ele' and DE.get(f.data_ele, ('?',))[0] == 'ID' and f.usage == 'R' and f.codes:
        out.append(((1, None), f.codes))
    if segnode.id == 'ENT' and len(k) > 1 and k[1].kind == 'ele' and DE.get(k[1].data_ele, ('?',))[0] == 'ID' and k[1].codes:
        out.append(((2, None), k[1].codes))
    if f.kind == 'comp' and f.children and f.children[0].codes and (DE.get(f.children[0].data_ele, ('?',))[0] == 'ID' or segnode.id == 'CTX'):
        out.append(((1, 1), f.children[0].codes))
    if segnode.id == 'HL' and len(k) > 2 and k[2].kind == 'ele' and k[2].codes:
        out.append(((3, None), k[2].codes))
    return out


def val_at(vals, pos):
    e, sub = pos
    if e > len(vals):
        return None
    v = vals[e - 1]
    if isinstance(v, list):
        if sub is None:
            return ':'.join(v)
        return v[sub - 1] if sub <= len(v) else None
    if sub is None or sub == 1:
        return v
    return None


def node_matches(cand, seg_id, vals):
    if cand.id != seg_id:
        return False
    for pos, codes in quals_of(cand):
        if val_at(vals, pos) not in codes:
            return False
    return True


def entry_segs(loop):
    if not loop.children:
        return
    fc = loop.children[0]
    if fc.kind == 'seg':
        yield fc
    else:
        for c in loop.children:
            if c.kind == 'loop':
                for x in entry_segs(c):
                    yield x


def candidates(P):
    node = P.parent
    pos = P.pos
    while True:
        for child in node.children:
            if child.pos < pos:
                continue
            if child.kind == 'seg':
                yield child
            else:
                for x in entry_segs(child):
                    yield x
        if node.kind == 'root':
            return
        pos = node.pos
        node = node.parent


def first_match(P, seg_id, vals):
    for c in candidates(P):
        if node_matches(c, seg_id, vals):
            return c
    return None


class Shadowed(Exception):
    pass


class Gen(object):
    def __init__(self, root, rng, fill=0.5, maxrep=2, icvn='00401', vriic='', fic='', opt_prob=0.5):
        self.root = root
        self.rng = rng
        self.fill = fill
        self.maxrep = maxrep
        self.opt_prob = opt_prob
        self.out = []  # (node, [elements]) elements: str or list[str]
        self.icvn, self.vriic, self.fic = icvn, vriic, fic
        self.hl = 0
        self.hl_stack = []
        self.lx = 0
        self.ctl = rng.randint(1, 899999)
        self.shadow = {}

    def count_for(self, node):
        mx = node.max_repeat()
        if node.kind == 'loop' and node.type == 'wrapper':
            return 0 if node.usage == 'N' else 1
        if node.usage == 'N':
            return 0
        if node.usage == 'R':
            lo = 1
        else:
            lo = 0 if self.rng.random() > self.opt_prob else 1
        if lo == 0:
            return 0
        return self.rng.randint(1, min(mx, self.maxrep))

    def seg_values(self, seg, forced=None):
        pres = choose_presence(self.rng, seg, self.fill)
        if pres is None:
            return None
        vals = {}
        qual_fmt = None
        for k in seg.children:
            for e in ([k] if k.kind == 'ele' else k.children):
                if e.data_ele == '1250' and e.codes and qual_fmt is None:
                    qual_fmt = e.codes[0]
        for k in seg.children:
            if k.seq not in pres:
                continue
            if k.kind == 'ele':
                v = gen_value(self.rng, k, qual_fmt if k.data_ele == '1251' else None)
                if k.data_ele == '1250':
                    qual_fmt = v
                vals[k.seq] = v
            else:
                sub = []
                subreq = [s for s in k.children if s.usage == 'R']
                anyp = False
                for s in k.children:
                    if s.usage == 'R' or (s.usage == 'S' and self.rng.random() < self.fill):
                        sub.append(gen_value(self.rng, s, qual_fmt if s.data_ele == '1251' else None))
                        if s.data_ele == '1250':
                            qual_fmt = sub[-1]
                        anyp = True
                    else:
                        sub.append('')
                if not anyp:
                    # need at least one component when composite is present
                    cand = [i for i, s in enumerate(k.children) if s.usage != 'N']
                    if not cand:
                        continue
                    i = cand[0]
                    sub[i] = gen_value(self.rng, k.children[i])
                while sub and sub[-1] == '':
                    sub.pop()
                vals[k.seq] = sub
        if forced:
            vals.update(forced)
        n = max(vals) if vals else 0
        return [vals.get(i, '') for i in range(1, n + 1)]

    def emit(self, seg, forced=None):
        for attempt in range(8):
            v = self.seg_values(seg, forced)
            if v is None:
                raise RuntimeError('unsat syntax ' + seg.path())
            if not self.out:
                break
            fm = first_match(self.out[-1][0], seg.id, v)
            if fm is seg:
                break
        else:
            self.shadow[seg.path()] = self.shadow.get(seg.path(), 0) + 1
            raise Shadowed(seg.path())
        self.out.append((seg, v))
        return v

    def gen_seg(self, seg, is_first=False):
        sid = seg.id
        forced = {}
        if sid == 'HL':
            self.hl += 1
            forced[1] = str(self.hl)
        if sid == 'LX':
            self.lx += 1
            forced[1] = str(self.lx)
        if sid == 'CLM':
            self.lx = 0
        v = self.emit(seg, forced)
        return v

    def gen_loop(self, loop):
        fs = loop.first_seg()
        start = 0
        if fs is not None:
            if fs.id == 'HL':
                # parent handling: HL02 = enclosing HL number if HL02 used
                pass
            self.gen_seg(fs, True)
            start = 1
            if fs.id == 'HL':
                self._fix_hl(loop)
        for child in loop.children[start:]:
            self.gen_child(child)

    def _fix_hl(self, loop):
        node, v = self.out[-1]
        myid = int(v[0])
        # parent: nearest enclosing loop instance that began with HL
        parent = self.hl_stack[-1] if self.hl_stack else None
        while len(v) < 2:
            v.append('')
        hl02 = node.children[1]
        if parent is not None and hl02.usage != 'N':
            v[1] = str(parent)
        else:
            v[1] = ''
        while v and v[-1] == '':
            v.pop()

    def gen_child(self, child):
        n = self.count_for(child)
        for i in range(n):
            mark = (len(self.out), self.hl, list(self.hl_stack), self.lx)
            try:
                if child.kind == 'seg':
                    self.gen_seg(child)
                else:
                    is_hl = child.first_seg() is not None and child.first_seg().id == 'HL'
                    if is_hl:
                        self.gen_loop_hl(child)
                    else:
                        self.gen_loop(child)
            except Shadowed:
                del self.out[mark[0]:]
                self.hl, self.hl_stack, self.lx = mark[1], mark[2], mark[3]
                required_here = (child.usage == 'R' and i == 0)
                if required_here:
                    raise
                break

    def gen_loop_hl(self, loop):
        fs = loop.first_seg()
        self.gen_seg(fs, True)
        self._fix_hl(loop)
        myid = self.hl
        self.hl_stack.append(myid)
        for child in loop.children[1:]:
            self.gen_child(child)
        self.hl_stack.pop()


def render(out, seg_t='~', ele_t='*', sub_t=':', eol='\n'):
    lines = []
    for node, vals in out:
        parts = [node.id]
        for v in vals:
            parts.append(sub_t.join(v) if isinstance(v, list) else v)
        while parts and parts[-1] == '':
            parts.pop()
        lines.append(ele_t.join(parts) + seg_t)
    return eol.join(lines) + eol


def gen_document(mapfile, idx, seed, **kw):
    rng = random.Random(seed)
    root = refmap.load(mapfile)
    g = Gen(root, rng, icvn=idx['icvn'], vriic=idx['vriic'], fic=idx['fic'], **kw)
    isa_loop = root.children[0]
    assert isa_loop.id == 'ISA_LOOP'
    ctl_isa = '%09d' % rng.randint(1, 999999999)
    isa = isa_loop.first_seg()
    rep = '^' if idx['icvn'] == '00501' else 'U'
    isa_vals = ['00', ' ' * 10, '00', ' ' * 10, 'ZZ', 'SENDERID'.ljust(15), 'ZZ', 'RECEIVERID'.ljust(15),
                '240102', '1230', rep, idx['icvn'], ctl_isa, '0', 'P', ':']
    g.out.append((isa, isa_vals))
    gs_loop = [c for c in isa_loop.children if c.id == 'GS_LOOP'][0]
    gs = gs_loop.first_seg()
    gsctl = str(rng.randint(1, 999999999))
    g.out.append((gs, [idx['fic'], 'SENDER', 'RECEIVER', '20240102', '1230', gsctl, 'X', idx['vriic']]))
    st_loop = [c for c in gs_loop.children if c.id == 'ST_LOOP'][0]
    nst = rng.randint(1, 2)
    for i in range(nst):
        g.hl = 0
        g.hl_stack = []
        start = len(g.out)
        st = st_loop.first_seg()
        stctl = '%04d' % (i + 1)
        stv = g.seg_values(st)
        stv[1] = stctl
        g.out.append((st, stv))
        se = None
        for child in st_loop.children[1:]:
            if child.kind == 'seg' and child.id == 'SE':
                se = child
                continue
            g.gen_child(child)
        if se is None:
            # SE may live in a FOOTER wrapper loop; generated by gen_child already
            for j in range(len(g.out) - 1, start, -1):
                if g.out[j][0].id == 'SE':
                    g.out[j] = (g.out[j][0], [str(j - start + 1), stctl])
                    break
            else:
                raise RuntimeError('no SE')
        else:
            g.out.append((se, [str(len(g.out) - start + 1), stctl]))
    ge = [c for c in gs_loop.children if c.id == 'GE'][0]
    g.out.append((ge, [str(nst), gsctl]))
    iea = [c for c in isa_loop.children if c.id == 'IEA'][0]
    g.out.append((iea, ['1', ctl_isa]))
    return g.out
