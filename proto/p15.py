"""Prototype: C15 reference model vs real element_if.is_valid over all maps (distinct definitions)"""
import sys, re, calendar, collections, glob, os, logging
sys.path.insert(0,'/repo')
import refmap
import pyx12.map_if, pyx12.params, pyx12.error_handler, pyx12.segment
logging.getLogger('pyx12').addHandler(logging.NullHandler()); logging.getLogger('pyx12').propagate=False
DE = refmap.load_dataele(); CODES = refmap.load_codes()
BASIC = set('ABCDEFGHIJKLMNOPQRSTUVWXYZ0123456789!"&\'()*+,-./:;?= ')
EXT = BASIC | set('abcdefghijklmnopqrstuvwxyz%~@[]_{}\\|<>#$')
EXT5 = EXT | set('^`')
CTRL = set(map(chr,[7,9,10,11,12,13,0x1c,0x1d,0x1e,0x1f,1,2,3,4,5,6,0x11,0x12,0x13,0x14,0x15,0x16,0x17]))
def ok_date8(s):
    if len(s)!=8 or not s.isdigit() or not s.isascii(): return False
    y,m,d=int(s[:4]),int(s[4:6]),int(s[6:])
    return y>=1800 and 1<=m<=12 and 1<=d<=calendar.monthrange(y,m)[1]
def ok_time(s):
    if not (s.isdigit() and s.isascii()) or len(s) not in (4,6,7,8): return False
    if int(s[:2])>23 or int(s[2:4])>59: return False
    if len(s)>=6 and int(s[4:6])>59: return False
    return True
def ok_type(v,t,charset,icvn):
    if t in ('AN','ID'):
        al = BASIC if charset=='B' else (EXT5 if icvn=='00501' else EXT)
        return all(c in al for c in v)
    if t[0]=='N': return re.fullmatch(r'-?[0-9]+', v, re.A) is not None
    if t=='R': return re.fullmatch(r'-?[0-9]*(\.[0-9]+)?', v, re.A) is not None and any(c.isdigit() for c in v)
    if t=='D8': return ok_date8(v)
    if t=='D6': return len(v)==6 and v.isdigit() and ok_date8(('20' if int(v[:2])<50 else '19')+v)
    if t=='DT':
        if len(v)==8: return ok_date8(v)
        if len(v)==6: return ok_type(v,'D6',charset,icvn)
        if len(v)==12: return ok_date8(v[:8]) and ok_time(v[8:])
        return False
    if t=='RD8':
        p=v.split('-'); return len(p)==2 and ok_date8(p[0]) and ok_date8(p[1])
    if t=='TM': return ok_time(v)
    if t=='B': return True
    return False
def expected(ele, v, charset, icvn, comp_ctx, qual):
    """returns set of codes. ele: refmap.Ele; comp_ctx=(is_sub, parent_usage)"""
    dtype,mn,mx = DE[ele.data_ele]
    if v is None or v=='':
        if ele.usage=='R': return {'1'}
        return set()
    if ele.usage=='N': return {'10'}
    codes=set()
    if dtype=='R' or dtype[0]=='N': n=len(v.replace('-','').replace('.',''))
    else: n=len(v)
    if n<mn: codes.add('4')
    if n>mx: codes.add('5')
    if any(c in CTRL for c in v):
        codes.add('6'); return codes
    if dtype in ('AN','ID') and v.endswith(' ') and len(v.rstrip())>=mn: codes.add('6')
    if ele.codes or ele.external:
        member = v in ele.codes or (ele.external and v in CODES.get(ele.external,[]))
        if not member: codes.add('7')
    if not ok_type(v,dtype,charset,icvn):
        codes.add({'DT':'8','TM':'9'}.get(dtype,'6'))
    if qual and ele.data_ele=='1251':
        if not ok_type(v,qual,charset,icvn): codes.add('9' if qual=='TM' else '8')
    if ele.regex and not re.search(ele.regex, v, re.S): codes.add('7')
    return codes
def catalogue(ele):
    dtype,mn,mx = DE[ele.data_ele]
    vals=[None,'']
    for n in {max(mn-1,1),mn,mx,mx+1, min(mx,mn+1)}:
        if n<=0 or n>300: continue
        vals += ['A'*n, '1'*n, 'a'*n, ('1'*(n-1)+' ') if n>1 else ' ']
    vals += ['-1','1.5','-','.','1.','-.5','12 ','AB\x07','~','^','`','20240229','20230229','18000101','17991231','20240101-20240102','20240101-20241301','240229','1259','2460','125960','12595999','1','12','123', '0'*mn]
    vals += ele.codes[:40] + ['ZQ9']
    if ele.external: vals += CODES[ele.external][:3] + ['ZZZZQ']
    if ele.regex: vals += ['123456789','12345678','1234567890','A23456789']
    return list(dict.fromkeys(vals))
param = pyx12.params.params()
files = sorted(os.path.basename(f) for f in glob.glob(refmap.MAPDIR+'/*.xml') if os.path.basename(f)[0].isdigit() or os.path.basename(f).startswith('x12.'))
disc = collections.Counter(); samples={}; n=0; seen=set(); nodes=0
for charset in ('E','B'):
  param.set('charset', charset)
  for fn in files:
    try: m = pyx12.map_if.load_map_file(fn, param)
    except Exception as e: print('LOAD FAIL', fn, e); continue
    r = refmap.load(fn)
    icvn = m.icvn
    # pair nodes by walking both trees in same order
    def pairs(rn, mn_):
        if rn.kind in ('root','loop'):
            mk = [c for k in sorted(mn_.pos_map) for c in mn_.pos_map[k]]
            assert len(mk)==len(rn.children), (fn, rn.path(), len(mk), len(rn.children))
            for a,b in zip(rn.children, mk):
                assert a.id==b.id, (fn, a.path(), a.id, b.id)
                yield from pairs(a,b)
        elif rn.kind in ('seg','comp'):
            assert len(rn.children)==len(mn_.children), (fn, rn.path())
            for a,b in zip(rn.children, mn_.children):
                if a.kind=='ele': yield (a,b)
                else: yield from pairs(a,b)
    for (re_, me) in pairs(r, m):
        nodes+=1
        if re_.data_ele not in DE: disc['undefined data_ele']+=1; continue
        sig=(charset, icvn, re_.data_ele, re_.usage, tuple(re_.codes), re_.external, re_.regex, re_.parent.kind=='comp' and re_.seq==1 and re_.parent.usage)
        if sig in seen: continue
        seen.add(sig)
        for v in catalogue(re_):
            errh = pyx12.error_handler.errh_list()
            elem = None if v is None else pyx12.segment.Element(v)
            try: res = me.is_valid(elem, errh)
            except Exception as e:
                k=('EXC',type(e).__name__); disc[k]+=1; samples.setdefault(k,(fn,re_.path(),v,str(e)[:80])); continue
            got = set(e[0] for e in errh.err_ele)
            exp = expected(re_, v, charset, icvn or '00401', None, None)
            n+=1
            if got!=exp or (res is False)!=(len(got)>0):
                k=(DE[re_.data_ele][0], 'exp',tuple(sorted(exp)),'got',tuple(sorted(got)), 'res', res)
                disc[k]+=1; samples.setdefault(k,(fn,re_.path(),re_.usage,DE[re_.data_ele],repr(v), re_.codes[:3], re_.external))
print('nodes',nodes,'distinct defs',len(seen),'evals',n)
for k,v in disc.most_common(60): print(v,k,'\n      ',samples.get(k))
