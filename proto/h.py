import sys, logging, io, traceback
sys.path.insert(0,'/repo')
import pyx12, pyx12.x12n_document, pyx12.params, pyx12.x12file, pyx12.x12context, pyx12.error_handler
from pyx12.test.x12testdata import datafiles
logging.getLogger('pyx12').addHandler(logging.NullHandler())
logging.getLogger('pyx12').propagate=False
def run(src, html=True, xml=True, ack=True, charset=None):
    p = pyx12.params.params()
    if charset: p.set('charset', charset)
    f997 = io.StringIO() if ack else None
    fh = io.StringIO() if html else None
    fx = io.StringIO() if xml else None
    try:
        r = pyx12.x12n_document.x12n_document(p, io.StringIO(src), f997, fh, fx)
    except Exception as e:
        return ('EXC', type(e).__name__, str(e)[:200], traceback.format_exc().splitlines()[-3:])
    return (r, f997.getvalue() if f997 else None, fh.getvalue() if fh else None, fx.getvalue() if fx else None)
