import sys, random, io, collections
sys.path.insert(0,'/repo')
import pyx12.x12file
ISA='ISA*00*          *00*          *ZZ*A              *ZZ*B              *040608*1333*U*00401*%s*0*P*:'
def toint(s):
    try: return int(s)
    except (ValueError, TypeError): return None
def gen(rng):
    segs=[]; exp=[]   # exp: list of (index_of_segment_after_which, level, code)
    ids=['000000001','000000002','000000003']
    seen_isa=[]
    for _ in range(rng.randint(1,3)):
        isa=rng.choice(ids); segs.append(ISA%isa)
        if isa in seen_isa: exp.append((len(segs)-1,'isa','025'))
        seen_isa.append(isa)
        ngs=0; seen_gs=[]
        trunc=False
        for _ in range(rng.randint(0,3)):
            gs=rng.choice(['1','2','3']); segs.append('GS*HC*A*B*20040608*1333*%s*X*004010X098A1'%gs); ngs+=1
            if gs in seen_gs: exp.append((len(segs)-1,'gs','6'))
            seen_gs.append(gs); nst=0; seen_st=[]
            for _ in range(rng.randint(0,3)):
                st=rng.choice(['0001','0002','0003']); segs.append('ST*837*%s'%st); nst+=1
                if st in seen_st: exp.append((len(segs)-1,'st','23'))
                seen_st.append(st); n=1; hl=0; chain=[]
                for _ in range(rng.randint(0,5)):
                    if rng.random()<0.4:
                        hl+=1
                        d=rng.choice([str(hl),str(hl),str(hl+1),'X',''])
                        par = rng.choice(['']+[str(c) for c in chain]) if rng.random()<0.8 else rng.choice(['99','Y'])
                        segs.append('HL*%s*%s*20*1'%(d,par)); n+=1
                        if toint(d)!=hl: exp.append((len(segs)-1,'seg','HL1'))
                        if par!='':
                            p=toint(par)
                            if p not in chain: exp.append((len(segs)-1,'seg','HL2'))
                            while chain and chain[-1]!=p: chain.pop()
                        chain.append(hl)
                    else:
                        segs.append(rng.choice(['NM1*85*2*X','REF*87*1','DTP*472*D8*20040407'])); n+=1
                if rng.random()<0.1 and False: pass
                # SE
                n+=1
                se_id = st if rng.random()<0.8 else rng.choice(['0009',''])
                cnt = rng.choice([str(n)]*4+[str(n+1),str(n-1),'X',''])
                segs.append('SE*%s*%s'%(cnt,se_id))
                if se_id!=st: exp.append((len(segs)-1,'st','3'))
                if toint(cnt)!=n: exp.append((len(segs)-1,'st','4'))
            ge_id = gs if rng.random()<0.8 else '9'
            cnt = rng.choice([str(nst)]*4+[str(nst+1),'X',''])
            segs.append('GE*%s*%s'%(cnt,ge_id))
            if ge_id!=gs: exp.append((len(segs)-1,'gs','4'))
            if toint(cnt)!=nst: exp.append((len(segs)-1,'gs','5'))
        iea_id = isa if rng.random()<0.8 else '000000009'
        cnt = rng.choice([str(ngs)]*4+[str(ngs+1),'X',''])
        segs.append('IEA*%s*%s'%(cnt,iea_id))
        if iea_id!=isa: exp.append((len(segs)-1,'isa','001'))
        if toint(cnt)!=ngs: exp.append((len(segs)-1,'isa','021'))
    return segs, exp
rng=random.Random(1); disc=collections.Counter(); samples={}; N=20000; codes=collections.Counter()
for t in range(N):
    segs,exp=gen(rng)
    # optional truncation at end (missing trailers)
    text='~'.join(segs)+'~'
    got=[]
    try:
        r=pyx12.x12file.X12Reader(io.StringIO(text))
        for i,s in enumerate(r):
            for e in r.pop_errors(): got.append((i,e[0],e[1]))
        r.cleanup()
        for e in r.pop_errors(): got.append(('eof',e[0],e[1]))
    except Exception as e:
        k=('EXC',type(e).__name__,str(e)[:40]); disc[k]+=1; samples.setdefault(k,text[106:300]); continue
    got=[g for g in got if g[2] not in ('8','1','SEG1')]
    for e in exp: codes[e[2]]+=1
    if sorted(map(str,got))!=sorted(map(str,exp)):
        missing=set(exp)-set(got); extra=set(got)-set(exp)
        k=('missing',tuple(sorted(set((m[1],m[2]) for m in missing))),'extra',tuple(sorted(set((m[1],m[2]) for m in extra))))
        disc[k]+=1; samples.setdefault(k,(text[106:400], sorted(missing,key=str), sorted(extra,key=str)))
print(N, dict(codes)); 
for k,v in disc.most_common(20): print(v,k,'\n    ',samples[k])
